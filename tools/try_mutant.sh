#!/bin/bash
# usage: try_mutant.sh <patch.diff> <property> [more properties...]
# Applies a seeded change to a scratch copy of /repo under /tmp (never to /repo itself), runs the
# quick checks on the copy (govc --repo) and removes the copy.
set -u
patch=$1; shift
WT=$(mktemp -d /tmp/trymut_XXXXXX)
cp -r /repo/. $WT/
( cd $WT && git checkout -q -- . && git clean -fdq )
git -C $WT apply "$patch" || { echo "patch does not apply"; rm -rf $WT; exit 3; }
for p in "$@"; do
  /verif/bin/govc check --property "$p" --no-evidence --repo $WT 2>&1 | grep -E "VIOLATION|FAIL|TOOL|ERROR|^$p " | cut -c1-220
done
rm -rf $WT
