#!/bin/bash
# usage: try_mutant.sh <patch.diff> <property> [more properties...]
# Applies a seeded change to /repo (which must be clean), runs the quick checks, and restores /repo.
set -u
patch=$1; shift
if [ -n "$(git -C /repo status --porcelain)" ]; then echo "REPO NOT CLEAN; refusing"; exit 3; fi
git -C /repo apply "$patch" || { echo "patch does not apply"; exit 3; }
rc=0
for p in "$@"; do
  /verif/bin/govc check --property "$p" --no-evidence 2>&1 | grep -E "VIOLATION|FAIL|TOOL|ERROR|^$p " | cut -c1-220
done
git -C /repo checkout -- . 
git -C /repo status --porcelain
