#!/usr/bin/env python3
"""adopt_seeded.py IN TABLE VALID ORIGIN

Moves the seeded changes of one round (IN = /verif/seeded/_incomingN, laid out as Cnn/<letter>/)
into /verif/seeded/<Cnn><letter>/ with the meta.json format of the corpus.

TABLE = output of tools/seeded_table.sh (which obligations of the quick check fail),
VALID = output of tools/validate_seeded.sh (demonstration / suite results), lines
        "Cnn/x | clean: ok ... | suite+patch: ok ... | demo+patch: FAIL".
Only changes that are confirmed (clean pass, suite pass, patched FAIL) are adopted.
"""
import json, os, re, shutil, sys

IN, TABLE, VALID, ORIGIN = sys.argv[1:5]
table = {}
for line in open(TABLE):
    m = re.match(r'(C\d\d)/(\w) \| violations=(\d+) \| (.*)', line.strip())
    if m:
        table[(m.group(1), m.group(2))] = (int(m.group(3)), m.group(4).split())
valid = {}
for line in open(VALID):
    m = re.match(r'(C\d\d)/(\w) \| clean: (\w+).*\| suite\+patch: (\w+).*\| demo\+patch: (\w+)', line.strip())
    if m:
        valid[(m.group(1), m.group(2))] = tuple('pass' if g == 'ok' else g for g in m.groups()[2:])
adopted, skipped = [], []
for (p, x), v in sorted(valid.items()):
    src = os.path.join(IN, p, x)
    if v != ('pass', 'pass', 'FAIL'):
        skipped.append((p + x, v))
        continue
    dst = '/verif/seeded/%s%s' % (p, x)
    os.makedirs(dst, exist_ok=True)
    for f in os.listdir(src):
        if f != 'meta.json':
            shutil.copy(os.path.join(src, f), os.path.join(dst, f))
    try:
        m = json.load(open(os.path.join(src, 'meta.json')))
    except Exception:
        m = {}
    n, obls = table.get((p, x), (0, []))
    meta = {
        'id': p + x, 'property': p,
        'summary': m.get('summary', ''), 'needs': m.get('needs', ''),
        'files': m.get('files', []), 'functions': m.get('functions', []),
        'origin': ORIGIN, 'rebased_onto_repaired_tree': False,
        'confirmed': {'demonstration_on_clean_tree': 'pass', 'repository_test_suite_with_patch': 'pass',
                      'demonstration_with_patch': 'FAIL',
                      'how': '/verif/tools/validate_seeded.sh in a scratch copy under /tmp'},
        'detected_by': {'check': '/verif/bin/govc check --property %s --tier quick' % p,
                        'violations': n, 'failing_obligations': obls},
        'apply': 'git -C /repo apply /verif/seeded/%s%s/patch.diff' % (p, x),
        'undo': 'git -C /repo checkout -- .',
    }
    json.dump(meta, open(os.path.join(dst, 'meta.json'), 'w'), indent=1)
    adopted.append(p + x)
print('adopted', len(adopted), ' '.join(adopted))
print('skipped', skipped)
