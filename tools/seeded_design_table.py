#!/usr/bin/env python3
"""Regenerates the table of seeded changes in DESIGN.md (section 11.6) from /verif/seeded/*/meta.json.
The table is the block of lines starting with '| id | property |' up to the first non-table line."""
import glob, json, re

rows = []
for d in sorted(glob.glob('/verif/seeded/C[0-9][0-9][a-z]')):
    m = json.load(open(d + '/meta.json'))
    s = re.sub(r'\s+', ' ', m.get('summary', '')).replace('|', '/')[:110]
    obls = m.get('detected_by', {}).get('failing_obligations', [])
    det = ', '.join('`%s`' % o for o in obls[:3]) if obls else '(not detected)'
    rows.append('| %s | %s | %s | %s |' % (m['id'], m['property'], s, det))
lines = open('/verif/DESIGN.md').read().split('\n')
start = next(i for i, l in enumerate(lines) if l.startswith('| id | property |'))
end = start
while end < len(lines) and lines[end].startswith('|'):
    end += 1
lines[start + 2:end] = rows
open('/verif/DESIGN.md', 'w').write('\n'.join(lines))
print(len(rows), 'rows')
