#!/bin/bash
# validate_seeded.sh [Cnn/x ...]: for each incoming seeded change, in a scratch copy of /repo:
#  1. the demonstration passes on the clean tree, 2. the patch applies, the repository's own
#  test suite still passes with it, 3. the demonstration fails with it.
export GOFLAGS=-mod=mod GOPROXY=off GOSUMDB=off GOTOOLCHAIN=local
IN=${IN:-/verif/seeded/_incoming}
list="$@"
[ -z "$list" ] && list=$(cd $IN && ls -d C*/[a-z])
for v in $list; do
  d=$IN/$v
  WT=/tmp/seedwt_$$
  rm -rf $WT; cp -r /repo $WT
  ( cd $WT && git checkout -q -- . && git clean -fdq )
  dir=.
  if head -1 $d/demo_test.go | grep -q "^// dir:"; then dir=$(head -1 $d/demo_test.go | sed 's|// dir: *||'); fi
  name=seed_$(echo $v | tr '/' '_')_demo_test.go
  cp $d/demo_test.go $WT/$dir/$name
  clean=$(cd $WT/$dir && go test -vet=off -count=1 -timeout 120s . 2>&1 | tail -1 | cut -c1-60)
  rm $WT/$dir/$name
  if ! (cd $WT && git apply $d/patch.diff 2>/dev/null); then echo "$v APPLY-FAILED"; rm -rf $WT; continue; fi
  suite=$(cd $WT && go build ./... 2>&1 | head -1; cd $WT && go test -vet=off -count=1 -timeout 300s ./... 2>&1 | grep -v "no test files" | sort | head -1 | cut -c1-60)
  cp $d/demo_test.go $WT/$dir/$name
  mut=$(cd $WT/$dir && go test -vet=off -count=1 -timeout 120s . 2>&1 | tail -1 | cut -c1-60)
  echo "$v | clean: $clean | suite+patch: $suite | demo+patch: $mut"
  rm -rf $WT
done
