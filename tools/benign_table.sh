#!/bin/bash
# benign_table.sh: behaviour-preserving edits must not raise an alarm. For every patch under
# /verif/benign/Cnn_k/ run the quick check of Cnn (and of C06; BENIGN_ALSO= to skip it) on a scratch copy.
IN=${IN:-/verif/benign}
cd $IN
for v in $(ls -d C*_[0-9] 2>/dev/null); do
  p=${v%_*}
  [ -f $IN/$v/patch.diff ] || continue
  WT=$(mktemp -d /tmp/benign_XXXXXX)
  cp -r /repo/. $WT/; ( cd $WT && git checkout -q -- . && git clean -fdq )
  if ! git -C $WT apply $IN/$v/patch.diff 2>/dev/null; then echo "$v APPLY-FAILED"; rm -rf $WT; continue; fi
  res=""
  for q in $p ${BENIGN_ALSO-C06}; do
    out=$(GOVC_REPLAY_DIR=$WT/.replays timeout 900 /verif/bin/govc check --property $q --tier quick --no-evidence --repo $WT 2>&1)
    n=$(echo "$out" | grep -c "^VIOLATION")
    first=$(echo "$out" | grep -E "^  FAIL|^TOOL-LIMIT" | head -2 | cut -c1-150 | tr '\n' ';')
    res="$res $q:alarms=$n $first"
  done
  kind=$(jq -r '.kind // ""' $IN/$v/meta.json 2>/dev/null | cut -c1-40)
  echo "$v [$kind] |$res"
  rm -rf $WT
done
