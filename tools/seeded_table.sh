#!/bin/bash
# seeded_table.sh: for every incoming seeded change, which obligations of its own property's quick check fail
IN=${IN:-/verif/seeded/_incoming}
cd $IN
for v in $(ls -d C*/[a-z]); do
  p=${v%/*}
  out=$(timeout 900 /verif/tools/try_mutant.sh $IN/$v/patch.diff $p 2>&1)
  n=$(echo "$out" | grep -c "^VIOLATION")
  obl=$(echo "$out" | grep "^VIOLATION" | sed 's|.*replay=/verif/replays/[A-Z0-9]*/||; s|\.json.*||' | head -3 | tr '\n' ' ')
  echo "$v | violations=$n | $obl"
done
