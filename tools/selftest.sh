#!/bin/bash
# selftest.sh [ids...]: must-fail corpus. Applies each kept seeded change to a scratch copy of /repo under
# /tmp (never to /repo), runs the quick check of its property on the copy and expects exit 1 with a
# VIOLATION line. Prints one line per change; exit 1 if any change is missed.
set -u
ids="$@"; [ -z "$ids" ] && ids=$(ls /verif/seeded | grep -v "^_")
bad=0
for id in $ids; do
  p=$(jq -r .property /verif/seeded/$id/meta.json)
  WT=$(mktemp -d /tmp/selftest_XXXXXX)
  cp -r /repo/. $WT/
  ( cd $WT && git checkout -q -- . && git clean -fdq )
  if ! git -C $WT apply /verif/seeded/$id/patch.diff; then echo "$id APPLY-FAILED"; bad=1; rm -rf $WT; continue; fi
  out=$(timeout 900 /verif/bin/govc check --property $p --tier quick --no-evidence --repo $WT 2>&1); rc=$?
  rm -rf $WT
  n=$(echo "$out" | grep -c "^VIOLATION property=$p ")
  if [ $rc -eq 1 ] && [ $n -ge 1 ]; then echo "$id $p caught ($n violations)"; else echo "$id $p MISSED (exit $rc)"; bad=1; fi
done
exit $bad
