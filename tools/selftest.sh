#!/bin/bash
# selftest.sh [ids...]: must-fail corpus. Applies each kept seeded change to /repo (must be clean), runs the
# quick check of its property and expects exit 1 with a VIOLATION line; restores /repo. Prints one line per change.
set -u
if [ -n "$(git -C /repo status --porcelain)" ]; then echo "REPO NOT CLEAN; refusing"; exit 3; fi
ids="$@"; [ -z "$ids" ] && ids=$(ls /verif/seeded | grep -v "^_")
bad=0
for id in $ids; do
  p=$(jq -r .property /verif/seeded/$id/meta.json)
  git -C /repo apply /verif/seeded/$id/patch.diff || { echo "$id APPLY-FAILED"; bad=1; continue; }
  out=$(timeout 900 /verif/bin/govc check --property $p --tier quick --no-evidence 2>&1); rc=$?
  git -C /repo checkout -- .
  n=$(echo "$out" | grep -c "^VIOLATION property=$p ")
  if [ $rc -eq 1 ] && [ $n -ge 1 ]; then echo "$id $p caught ($n violations)"; else echo "$id $p MISSED (exit $rc)"; bad=1; fi
done
exit $bad
