#!/bin/bash
# selftest.sh [ids...]: must-fail corpus. Applies each kept seeded change to a scratch copy of /repo under
# /tmp (never to /repo), runs the quick check of its property on the copy and expects exit 1 with a
# VIOLATION line. Four at a time. Prints one line per change; exit 1 if any change is missed.
ids="$@"; [ -z "$ids" ] && ids=$(ls /verif/seeded | grep "^C")
one() {
  id=$1
  p=$(jq -r .property /verif/seeded/$id/meta.json)
  WT=$(mktemp -d /tmp/selftest_XXXXXX)
  cp -r /repo/. $WT/
  ( cd $WT && git checkout -q -- . && git clean -fdq )
  if ! git -C $WT apply /verif/seeded/$id/patch.diff 2>/dev/null; then echo "$id APPLY-FAILED"; rm -rf $WT; return; fi
  out=$(GOVC_REPLAY_DIR=$WT/.replays timeout 900 /verif/bin/govc check --property $p --tier quick --no-evidence --repo $WT 2>&1); rc=$?
  rm -rf $WT
  n=$(echo "$out" | grep -c "^VIOLATION property=$p ")
  obl=$(echo "$out" | grep "^VIOLATION" | sed 's|.*replay=[^ ]*/||; s|\.json.*||' | head -3 | tr '\n' ' ')
  if [ $rc -eq 1 ] && [ $n -ge 1 ]; then echo "$id $p caught ($n violations) $obl"; else echo "$id $p MISSED (exit $rc)"; fi
}
export -f one
echo $ids | tr ' ' '\n' | xargs -P 4 -I{} bash -c 'one {}' | sort | tee /verif/work/selftest.last
# keep the record of what detects each change up to date (detected_by in meta.json)
python3 - <<'PY'
import json, re
for line in open('/verif/work/selftest.last'):
    m = re.match(r'(C\d\d\w) (C\d\d) caught \((\d+) violations\) ?(.*)', line.strip())
    if not m:
        continue
    f = '/verif/seeded/%s/meta.json' % m.group(1)
    meta = json.load(open(f))
    meta['detected_by'] = {'check': '/verif/bin/govc check --property %s --tier quick' % m.group(2),
                           'violations': int(m.group(3)), 'failing_obligations': m.group(4).split()}
    json.dump(meta, open(f, 'w'), indent=1)
PY
if grep -q "MISSED\|APPLY-FAILED" /verif/work/selftest.last; then exit 1; fi
exit 0
