#!/bin/bash
# selftest.sh [ids...]: must-fail corpus. Applies each kept seeded change to a scratch copy of /repo under
# /tmp (never to /repo), runs the quick check of its property on the copy and expects exit 1 with a
# VIOLATION line. Four at a time. Prints one line per change; exit 1 if any change is missed.
ids="$@"; [ -z "$ids" ] && ids=$(ls /verif/seeded | grep "^C")
one() {
  id=$1
  p=$(jq -r .property /verif/seeded/$id/meta.json)
  WT=$(mktemp -d /tmp/selftest_XXXXXX)
  cp -r /repo/. $WT/
  ( cd $WT && git checkout -q -- . && git clean -fdq )
  if ! git -C $WT apply /verif/seeded/$id/patch.diff 2>/dev/null; then echo "$id APPLY-FAILED"; rm -rf $WT; return; fi
  out=$(GOVC_REPLAY_DIR=$WT/.replays timeout 900 /verif/bin/govc check --property $p --tier quick --no-evidence --repo $WT 2>&1); rc=$?
  rm -rf $WT
  n=$(echo "$out" | grep -c "^VIOLATION property=$p ")
  if [ $rc -eq 1 ] && [ $n -ge 1 ]; then echo "$id $p caught ($n violations)"; else echo "$id $p MISSED (exit $rc)"; fi
}
export -f one
echo $ids | tr ' ' '\n' | xargs -P 4 -I{} bash -c 'one {}' | sort | tee /verif/work/selftest.last
if grep -q "MISSED\|APPLY-FAILED" /verif/work/selftest.last; then exit 1; fi
exit 0
