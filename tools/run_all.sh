#!/bin/bash
# run_all.sh [tier] [extra govc flags]: every claimed property, summary line per property
tier=${1:-quick}; shift
props=$(jq -r '.checks[].property_id' /verif/MANIFEST.json)
[ -n "$PROPS" ] && props="$PROPS"
mkdir -p /verif/work/runall; rm -f /verif/work/runall/*.out
for p in $props; do
  ( timeout 3000 /verif/bin/govc check --property $p --tier $tier "$@" > /verif/work/runall/$p.out 2>&1; echo "exit=$? $(grep -E "^$p (quick|thorough):" /verif/work/runall/$p.out | cut -c1-140)" ) &
  while [ $(jobs -r | wc -l) -ge 4 ]; do sleep 0.5; done
done
wait
grep -h "^VIOLATION\|^TOOL-LIMIT\|FAIL" /verif/work/runall/*.out | sort | uniq | head -40
