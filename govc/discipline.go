package main

// Discipline checks decided by the effect analysis over go/ssa (back end
// "effects"): ownership / data-race discipline (C12), determinism discipline
// (C16), observers-only discipline for the introspection flags (C19).
// Each check is an obligation: it passes iff the analysed code obeys the
// discipline; the failing sites are reported in the obligation's text.

import (
	"fmt"
	"go/types"
	"sort"
	"strings"

	"golang.org/x/tools/go/ssa"
)

func effectsObl(name string, props []string, ok bool, where, src string, bad []string) *Obligation {
	o := &Obligation{Name: name, Func: "discipline", Kind: "effects", Props: props, Goal: "true", Folded: true, Where: where, Src: src}
	if !ok {
		o.Goal = "false"
		o.Folded = false
		sort.Strings(bad)
		o.Src = src + " -- violated at: " + strings.Join(bad, "; ")
	}
	return o
}

// reachable computes the functions reachable from roots through static calls,
// closures, dynamic calls (over-approximated) -- but not through `go` statements.
func (e *Effects) reachable(roots ...*ssa.Function) map[*ssa.Function]bool {
	seen := map[*ssa.Function]bool{}
	var work []*ssa.Function
	for _, r := range roots {
		if r != nil && !seen[r] {
			seen[r] = true
			work = append(work, r)
		}
	}
	for len(work) > 0 {
		f := work[len(work)-1]
		work = work[:len(work)-1]
		for _, b := range f.Blocks {
			for _, ins := range b.Instrs {
				if _, isGo := ins.(*ssa.Go); isGo {
					continue
				}
				fns, _ := e.calleesOf(f, ins)
				for _, g := range fns {
					if !seen[g] {
						seen[g] = true
						work = append(work, g)
					}
				}
			}
		}
	}
	return seen
}

// reachableWithGo: like reachable, but goroutines started on the way count as well.
func (e *Effects) reachableWithGo(roots ...*ssa.Function) map[*ssa.Function]bool {
	seen := map[*ssa.Function]bool{}
	var work []*ssa.Function
	for _, r := range roots {
		if r != nil && !seen[r] {
			seen[r] = true
			work = append(work, r)
		}
	}
	for len(work) > 0 {
		f := work[len(work)-1]
		work = work[:len(work)-1]
		for _, b := range f.Blocks {
			for _, ins := range b.Instrs {
				fns, _ := e.calleesOf(f, ins)
				for _, g := range fns {
					if !seen[g] {
						seen[g] = true
						work = append(work, g)
					}
				}
			}
		}
	}
	return seen
}

// accesses: direct reads and writes of heap classes by f, with positions.
type access struct {
	class string
	write bool
	pos   string
	ins   ssa.Instruction
	fn    *ssa.Function
}

func (e *Effects) accessesOf(f *ssa.Function) []access {
	var out []access
	for _, b := range f.Blocks {
		for _, ins := range b.Instrs {
			switch ins := ins.(type) {
			case *ssa.Store:
				r := e.rootOf(ins.Addr, 0)
				if r.kind == "interior" || r.kind == "global" {
					out = append(out, access{r.class, true, e.P.Pos(instrPos(ins)), ins, f})
				}
			case *ssa.UnOp:
				if ins.Op.String() == "*" {
					r := e.rootOf(ins.X, 0)
					if r.kind == "interior" || r.kind == "global" {
						out = append(out, access{r.class, false, e.P.Pos(instrPos(ins)), ins, f})
					}
				}
			case *ssa.MapUpdate:
				d, _ := mapClasses(ins.Map.Type().Underlying().(*types.Map))
				out = append(out, access{d, true, e.P.Pos(instrPos(ins)), ins, f})
			case *ssa.Lookup:
				if mt, ok := ins.X.Type().Underlying().(*types.Map); ok {
					d, _ := mapClasses(mt)
					out = append(out, access{d, false, e.P.Pos(instrPos(ins)), ins, f})
				}
			case *ssa.Call:
				if bi, ok := ins.Common().Value.(*ssa.Builtin); ok && bi.Name() == "append" {
					if sl, ok := ins.Type().Underlying().(*types.Slice); ok {
						out = append(out, access{elemClass(sl.Elem()), true, e.P.Pos(instrPos(ins)), ins, f})
					}
				}
			}
		}
	}
	return out
}

func (ck *Checker) disciplineObligations() []*Obligation {
	var out []*Obligation
	e := ck.Eff
	p := ck.P
	bcl := p.Pkgs["bcl"]
	isInit := func(f *ssa.Function) bool {
		return f.Name() == "init" || strings.HasPrefix(f.Name(), "init#")
	}

	// ---- C12.1 / C16: package-level variables are written only by initializers -------------
	{
		writers := map[string][]string{}
		for _, f := range p.All {
			if f.Blocks == nil {
				continue
			}
			for c, sites := range e.direct[f].Sites {
				if strings.HasPrefix(c, "G_") && !isInit(f) {
					for _, s := range sites {
						writers[c] = append(writers[c], p.FuncName(f)+" "+s)
					}
				}
			}
			// map globals: a MapUpdate on a map loaded from a global
			for _, b := range f.Blocks {
				for _, ins := range b.Instrs {
					mu, ok := ins.(*ssa.MapUpdate)
					if !ok || isInit(f) {
						continue
					}
					if u, ok := mu.Map.(*ssa.UnOp); ok {
						if g, ok := u.X.(*ssa.Global); ok {
							writers["G_"+sanitize(globalName(g))] = append(writers["G_"+sanitize(globalName(g))], p.FuncName(f)+" "+p.Pos(instrPos(ins)))
						}
					}
				}
			}
		}
		// a global whose address is handed to a call (e.g. a sync.Pool or a cache with methods)
		// can be mutated behind the analysis' back: only loads and indexed loads are allowed
		for _, f := range p.All {
			if f.Blocks == nil || isInit(f) {
				continue
			}
			for _, b := range f.Blocks {
				for _, ins := range b.Instrs {
					ci, ok := ins.(ssa.CallInstruction)
					if !ok {
						continue
					}
					for _, a := range ci.Common().Args {
						if g, ok := a.(*ssa.Global); ok {
							writers["G_"+sanitize(globalName(g))] = append(writers["G_"+sanitize(globalName(g))], p.FuncName(f)+" passes its address to a call at "+p.Pos(instrPos(ins)))
						}
						if fa, ok := a.(*ssa.FieldAddr); ok {
							if g, ok := fa.X.(*ssa.Global); ok {
								writers["G_"+sanitize(globalName(g))] = append(writers["G_"+sanitize(globalName(g))], p.FuncName(f)+" passes a field address to a call at "+p.Pos(instrPos(ins)))
							}
						}
					}
				}
			}
		}
		// ... and so can a global whose address is stored anywhere or otherwise leaves the
		// expression it is used in: the only allowed uses are loads (of it, of its fields, of
		// its elements) and the stores counted above
		for _, f := range p.All {
			if f.Blocks == nil || isInit(f) {
				continue
			}
			for _, b := range f.Blocks {
				for _, ins := range b.Instrs {
					var ops []*ssa.Value
					for _, op := range ins.Operands(ops) {
						if op == nil || *op == nil {
							continue
						}
						g, ok := (*op).(*ssa.Global)
						if !ok {
							continue
						}
						if !globalUseIsLoadOnly(ins, g) {
							writers["G_"+sanitize(globalName(g))] = append(writers["G_"+sanitize(globalName(g))], p.FuncName(f)+" lets its address escape at "+p.Pos(instrPos(ins)))
						}
					}
				}
			}
		}
		var names []string
		for _, short := range []string{"bcl", "main", "uvarint"} {
			for n, m := range p.Pkgs[short].Members {
				if g, ok := m.(*ssa.Global); ok {
					_ = n
					names = append(names, "G_"+sanitize(globalName(g)))
				}
			}
		}
		sort.Strings(names)
		for _, g := range names {
			out = append(out, effectsObl("discipline/global-written-only-by-init/"+g, []string{"C12", "C16", "*"}, len(writers[g]) == 0, "package scope",
				"the package-level variable "+g+" is written only by package initializers (no hidden shared mutable state)", writers[g]))
		}
	}

	// ---- C16 / C12: no untyped aliasing -------------------------------------------------------
	{
		var ubad []string
		for _, short := range []string{"bcl", "main", "uvarint"} {
			sp := p.Pkgs[short]
			if sp == nil || sp.Pkg == nil {
				continue
			}
			for _, imp := range sp.Pkg.Imports() {
				if imp.Path() == "unsafe" {
					ubad = append(ubad, "package "+sp.Pkg.Path()+" imports unsafe")
				}
			}
		}
		out = append(out, effectsObl("discipline/no-unsafe-aliasing", []string{"C16", "C12", "C06"}, len(ubad) == 0, "package scope",
			"no package of the library imports unsafe: a value built through an untyped pointer can alias memory the caller still owns (an input buffer turned into a string without a copy), which the heap model has no account of and which makes a compiled program depend on what the caller does later", ubad))
	}

	// ---- C12.2 / C16: executing a Prog writes nothing reachable from it ----------------------
	{
		ex := bcl.Func("execute")
		exAPI := bcl.Func("Execute")
		progClasses := map[string]bool{"E_byte": true, "E_int": true, "E_value": true}
		// every field of the line table object the Prog points to, except its mutex
		if lt := bcl.Type("lineCalc"); lt != nil {
			lst := lt.Type().Underlying().(*types.Struct)
			for i := 0; i < lst.NumFields(); i++ {
				if lst.Field(i).Name() != "mu" {
					progClasses[fieldClass(lt.Type(), i)] = true
				}
			}
		}
		if pt := bcl.Type("Prog"); pt != nil {
			st := pt.Type().Underlying().(*types.Struct)
			for i := 0; i < st.NumFields(); i++ {
				progClasses[fieldClass(pt.Type(), i)] = true
			}
		}
		var bad []string
		for f := range e.reachable(ex, exAPI) {
			if f.Blocks == nil || e.direct[f] == nil {
				continue
			}
			for c, sites := range e.direct[f].Sites {
				if progClasses[c] {
					for _, s := range sites {
						bad = append(bad, fmt.Sprintf("%s writes %s at %s", p.FuncName(f), c, s))
					}
				}
			}
		}
		// ... nor lets the address of one of those fields leave the expression it is loaded in (a field
		// handed to a library by address - a buffer, say - is written behind the analysis' back)
		protected := map[types.Type]bool{}
		if pt := bcl.Type("Prog"); pt != nil {
			protected[pt.Type()] = true
		}
		if lt := bcl.Type("lineCalc"); lt != nil {
			protected[lt.Type()] = true
		}
		for f := range e.reachable(ex, exAPI) {
			for _, b := range f.Blocks {
				for _, ins := range b.Instrs {
					fa, ok := ins.(*ssa.FieldAddr)
					if !ok {
						continue
					}
					pt, ok := fa.X.Type().Underlying().(*types.Pointer)
					if !ok || !protected[pt.Elem()] {
						continue
					}
					fld := pt.Elem().Underlying().(*types.Struct).Field(fa.Field)
					if fld.Name() == "mu" {
						continue
					}
					if !addrUsedForLoadsOnly(fa, 0) {
						bad = append(bad, fmt.Sprintf("%s lets the address of %s.%s escape at %s", p.FuncName(f), pt.Elem().String(), fld.Name(), p.Pos(instrPos(fa))))
					}
				}
			}
		}
		sort.Strings(bad)
		out = append(out, effectsObl("discipline/execute-does-not-write-prog", []string{"C12", "C16", "C19", "C04", "C03", "C09"}, len(bad) == 0, "machine.go",
			"no function reachable from execute writes a field of Prog, a byte/int/value slice element or the line table: a Prog is only read by execution, so concurrent executions of one Prog share read-only memory and execution does not alter it", bad))
	}

	// ---- C12.3: pipeline roles and shared locations --------------------------------------------
	{
		lexRun := p.Lookup("(*lexer).run")
		parseFn := bcl.Func("parse")
		lexer := e.reachable(lexRun)
		parser := e.reachable(parseFn)
		// functions spawned by parse are not part of the parser role (reachable() skips `go`)
		type acc struct{ lexW, lexR, parW, parR []string }
		by := map[string]*acc{}
		collect := func(role map[*ssa.Function]bool, isLexer bool) {
			for f := range role {
				if f.Blocks == nil {
					continue
				}
				for _, a := range e.accessesOf(f) {
					if !strings.HasPrefix(a.class, "H_") && !strings.HasPrefix(a.class, "E_") && !strings.HasPrefix(a.class, "M") {
						continue
					}
					x := by[a.class]
					if x == nil {
						x = &acc{}
						by[a.class] = x
					}
					s := p.FuncName(f) + " " + a.pos
					switch {
					case isLexer && a.write:
						x.lexW = append(x.lexW, s)
					case isLexer:
						x.lexR = append(x.lexR, s)
					case a.write:
						x.parW = append(x.parW, s)
					default:
						x.parR = append(x.parR, s)
					}
				}
			}
		}
		collect(lexer, true)
		collect(parser, false)
		var classes []string
		for c := range by {
			classes = append(classes, c)
		}
		sort.Strings(classes)
		for _, c := range classes {
			x := by[c]
			conflict := (len(x.lexW) > 0 && (len(x.parW) > 0 || len(x.parR) > 0)) || (len(x.parW) > 0 && len(x.lexR) > 0)
			if !conflict {
				continue
			}
			// a location class accessed by both roles with at least one write must be lock-guarded
			var bad []string
			ok := true
			for _, role := range []map[*ssa.Function]bool{lexer, parser} {
				for f := range role {
					if f.Blocks == nil {
						continue
					}
					for _, a := range e.accessesOf(f) {
						if a.class != c {
							continue
						}
						if !e.heldLock(f, a.ins) && !e.freshObjectAccess(f, a.ins) {
							ok = false
							bad = append(bad, fmt.Sprintf("%s accesses %s without holding its mutex at %s", p.FuncName(f), c, a.pos))
						}
					}
				}
			}
			// element classes shared only by type (e.g. []int of different owners) are attributed by field owner
			if strings.HasPrefix(c, "E_") {
				continue
			}
			out = append(out, effectsObl("discipline/pipeline-shared/"+c, []string{"C12"}, ok, "lex.go/parse.go",
				"the location class "+c+" is accessed by the lexer goroutine and by the parser goroutine with at least one write: every access must hold the owning object's mutex", bad))
		}
		// lock balance: a function that takes a mutex releases it on every path to a return
		// (a deferred Unlock in the block of the Lock, or an Unlock call on every path)
		{
			var lbad []string
			for _, f := range p.All {
				if f.Blocks == nil {
					continue
				}
				for _, s := range lockLeaks(f) {
					lbad = append(lbad, p.FuncName(f)+" "+s)
				}
			}
			out = append(out, effectsObl("discipline/lock-released-on-every-path", []string{"C11", "C12", "C06"}, len(lbad) == 0, "linecalc.go",
				"every function that locks a mutex unlocks it before it returns, on every path (deferred, or an explicit Unlock between the Lock and each return): a mutex left held blocks the lexer's next line-table update and the parser's next position lookup for ever", lbad))
		}
		// lexer-private and parser-private state: lexer fields are touched only by the lexer role (+ its constructor)
		var bad []string
		for f := range parser {
			if f.Blocks == nil || lexer[f] {
				continue
			}
			for _, a := range e.accessesOf(f) {
				if strings.HasPrefix(a.class, "H_lexer_") && a.class != "H_lexer_tokens" {
					if f.Name() == "newLexer" {
						continue // constructs the lexer before its goroutine starts
					}
					bad = append(bad, fmt.Sprintf("%s touches %s at %s", p.FuncName(f), a.class, a.pos))
				}
			}
		}
		for f := range lexer {
			if f.Blocks == nil {
				continue
			}
			for _, a := range e.accessesOf(f) {
				if strings.HasPrefix(a.class, "H_parser_") || strings.HasPrefix(a.class, "H_scopeCompiler_") || strings.HasPrefix(a.class, "H_Prog_") {
					bad = append(bad, fmt.Sprintf("%s touches %s at %s", p.FuncName(f), a.class, a.pos))
				}
			}
		}
		out = append(out, effectsObl("discipline/pipeline-private-state", []string{"C12", "C07"}, len(bad) == 0, "lex.go/parse.go",
			"lexer fields are accessed only by functions of the lexer goroutine (and its constructor), parser/scope/Prog fields only by the parser goroutine; they communicate through channels only", bad))
	}

	// ---- C12: variables shared with started goroutines are handed off through a channel ---------------
	{
		var bad []string
		checked := 0
		for _, f := range p.All {
			if p.shortPkg(f) != "" || f.Blocks == nil {
				continue
			}
			for _, b := range f.Blocks {
				for _, ins := range b.Instrs {
					g, ok := ins.(*ssa.Go)
					if !ok {
						continue
					}
					mc, ok := g.Common().Value.(*ssa.MakeClosure)
					if !ok {
						continue
					}
					cl := mc.Fn.(*ssa.Function)
					for i, fv := range cl.FreeVars {
						var stores []*ssa.Store
						if refs := fv.Referrers(); refs != nil {
							for _, r := range *refs {
								if sto, ok := r.(*ssa.Store); ok && sto.Addr == fv {
									stores = append(stores, sto)
								}
							}
						}
						if len(stores) == 0 {
							continue
						}
						checked++
						// the goroutine's writes all precede one send; find the channel
						var sends []*ssa.Send
						for _, cb := range cl.Blocks {
							for _, ci := range cb.Instrs {
								if sd, ok := ci.(*ssa.Send); ok {
									sends = append(sends, sd)
								}
							}
						}
						chName := ""
						for _, sd := range sends {
							all := true
							for _, sto := range stores {
								if !instrBefore(sto, sd) {
									all = false
								}
							}
							if all {
								chName = chanVarName(sd.Chan)
							}
						}
						where := p.FuncName(f) + ": variable " + fv.Name() + " written by " + p.FuncName(cl)
						if chName == "" {
							bad = append(bad, where+" is not followed by a send on every path")
							continue
						}
						// in the starter: every access after the go statement follows a receive from that channel
						cell := mc.Bindings[i]
						if refs := cell.Referrers(); refs != nil {
							for _, r := range *refs {
								if r == ssa.Instruction(mc) || r.Block() == nil {
									continue
								}
								if _, isClosure := r.(*ssa.MakeClosure); isClosure {
									continue
								}
								if !instrBefore(g, r) {
									continue // before the goroutine exists
								}
								okRecv := false
								for _, fb := range f.Blocks {
									for _, fi := range fb.Instrs {
										if u, ok := fi.(*ssa.UnOp); ok && u.Op.String() == "<-" && chanVarName(u.X) == chName && instrBefore(u, r) {
											okRecv = true
										}
									}
								}
								if !okRecv {
									bad = append(bad, where+" is accessed at "+p.Pos(instrPos(r))+" without a preceding receive from "+chName)
								}
							}
						}
					}
				}
			}
		}
		sort.Strings(bad)
		out = append(out, effectsObl("discipline/goroutine-results-handed-off-through-a-channel", []string{"C12"}, len(bad) == 0, "api.go",
			fmt.Sprintf("every variable written by a started goroutine (%d found) is written only before a send of that goroutine, and the starter accesses it only after receiving from that channel", checked), bad))
	}

	// ---- C12/C16: the caller's writers are used by one goroutine of the pipeline only -----------------
	{
		usesWriter := func(root *ssa.Function) []string {
			var hits []string
			for f := range e.reachable(root) {
				for _, b := range f.Blocks {
					for _, ins := range b.Instrs {
						ci, ok := ins.(ssa.CallInstruction)
						if !ok {
							continue
						}
						cc := ci.Common()
						hit := false
						if cc.IsInvoke() && cc.Method.Name() == "Write" {
							hit = true
						}
						if sc := cc.StaticCallee(); sc != nil && sc.Pkg != nil {
							pp := sc.Pkg.Pkg.Path()
							if (pp == "fmt" && strings.HasPrefix(sc.Name(), "Fprint")) || (pp == "io" && sc.Name() == "WriteString") {
								hit = true
							}
						}
						if hit {
							hits = append(hits, p.FuncName(f)+" at "+p.Pos(instrPos(ins)))
						}
					}
				}
			}
			sort.Strings(hits)
			return hits
		}
		var bad []string
		writers := 0
		for _, starter := range []*ssa.Function{bcl.Func("ParseFile"), bcl.Func("newLexer")} {
			if starter == nil {
				continue
			}
			for _, b := range starter.Blocks {
				for _, ins := range b.Instrs {
					g, ok := ins.(*ssa.Go)
					if !ok {
						continue
					}
					var root *ssa.Function
					if mc, ok := g.Call.Value.(*ssa.MakeClosure); ok {
						root, _ = mc.Fn.(*ssa.Function)
					} else if sc := g.Call.StaticCallee(); sc != nil {
						root = sc
					}
					if root == nil {
						bad = append(bad, "goroutine with an unknown body at "+p.Pos(instrPos(ins)))
						continue
					}
					if hits := usesWriter(root); len(hits) > 0 {
						writers++
						if writers > 1 {
							bad = append(bad, "a second goroutine ("+p.FuncName(root)+") writes to a writer: "+hits[0])
						}
					}
				}
			}
		}
		out = append(out, effectsObl("discipline/one-goroutine-uses-the-writers", []string{"C12", "C16"}, len(bad) == 0, "api.go",
			"of the goroutines the pipeline starts, at most one (the parser) can reach a Write, fmt.Fprint* or io.WriteString call: the caller's output and log writers are never used by two goroutines at once", bad))
	}

	// ---- C16/C12/C15: goroutines are started only by the file pipeline ---------------------------------
	{
		allowed := map[string]bool{"ParseFile": true, "newLexer": true}
		var bad []string
		for _, f := range p.All {
			if p.shortPkg(f) != "" || f.Blocks == nil {
				continue
			}
			for _, b := range f.Blocks {
				for _, ins := range b.Instrs {
					if _, ok := ins.(*ssa.Go); ok && !allowed[p.FuncName(f)] {
						bad = append(bad, p.FuncName(f)+" starts a goroutine at "+p.Pos(instrPos(ins)))
					}
				}
			}
		}
		sort.Strings(bad)
		out = append(out, effectsObl("discipline/goroutines-only-in-the-file-pipeline", []string{"C16", "C12", "C15", "C11"}, len(bad) == 0, "package bcl",
			"the only goroutines the library starts are the reader and parser of ParseFile and the lexer of newLexer; everything else (Parse's own work, execution, binding) is sequential, so its outcome cannot depend on scheduling", bad))
	}

	// ---- C07/C20: the lexer's window representation is hidden behind its primitives ---------------------
	{
		window := map[string]bool{"(*lexer).next": true, "(*lexer).current": true, "(*lexer).emit": true, "(*lexer).emitError": true, "newLexer": true}
		cursor := map[string]bool{"(*lexer).next": true, "(*lexer).current": true, "(*lexer).emit": true, "(*lexer).emitError": true,
			"(*lexer).backup": true, "(*lexer).unbackup": true, "(*lexer).ignore": true}
		tokens := map[string]bool{"(*lexer).emit": true, "(*lexer).emitError": true, "(*lexer).run": true, "(*lexer).nextToken": true, "newLexer": true}
		// private helpers of the primitives are primitives too: a function all of whose
		// callers are in a set (and that has a caller, and whose address is not taken) joins it
		callers := map[*ssa.Function][]*ssa.Function{}
		for _, f := range p.All {
			for _, b := range f.Blocks {
				for _, ins := range b.Instrs {
					if ci, ok := ins.(ssa.CallInstruction); ok {
						if sc := ci.Common().StaticCallee(); sc != nil {
							callers[sc] = append(callers[sc], f)
						}
					}
				}
			}
		}
		closeOver := func(set map[string]bool) {
			for changed := true; changed; {
				changed = false
				for _, f := range p.All {
					fnm := p.FuncName(f)
					if set[fnm] || p.shortPkg(f) != "" || f.Blocks == nil || len(callers[f]) == 0 || e.addressTaken(f) || e.methodValueTaken(f) {
						continue
					}
					all := true
					for _, c := range callers[f] {
						if !set[p.FuncName(c)] {
							all = false
						}
					}
					if all {
						set[fnm] = true
						changed = true
					}
				}
			}
		}
		closeOver(window)
		closeOver(cursor)
		closeOver(tokens)
		var bad []string
		for _, f := range p.All {
			if p.shortPkg(f) != "" || f.Blocks == nil {
				continue
			}
			fn := p.FuncName(f)
			for _, a := range e.accessesOf(f) {
				if !strings.HasPrefix(a.class, "H_lexer") {
					continue
				}
				ok := false
				switch a.class {
				case "H_lexer_input", "H_lexer_posShift", "H_lexer_inputs", "H_lexer_lpUpd":
					ok = window[fn]
				case "H_lexer_pos", "H_lexer_start", "H_lexer_width":
					ok = cursor[fn]
				case "H_lexer_tokens":
					ok = tokens[fn]
				}
				if !ok {
					bad = append(bad, fmt.Sprintf("%s touches %s at %s", fn, a.class, a.pos))
				}
			}
			// the chunk channel is received from only in next()
			for _, b := range f.Blocks {
				for _, ins := range b.Instrs {
					if u, ok := ins.(*ssa.UnOp); ok && u.Op.String() == "<-" && chanVarName(u.X) == "inputs" && !window[fn] {
						if _, isF := u.X.(*ssa.UnOp); isF {
							if fa, ok := u.X.(*ssa.UnOp).X.(*ssa.FieldAddr); ok && strings.HasSuffix(fa.X.Type().String(), "lexer") {
								bad = append(bad, fmt.Sprintf("%s receives from lexer.inputs at %s", fn, p.Pos(instrPos(ins))))
							}
						}
					}
				}
			}
		}
		sort.Strings(bad)
		out = append(out, effectsObl("discipline/lexer-window-hidden-behind-primitives", []string{"C07", "C20", "C11", "C17", "C08"}, len(bad) == 0, "lex.go",
			"the window representation (input, posShift, inputs, lpUpd) is accessed only by next/current/emit/emitError (and the constructor), the cursor (start, pos, width) only by those and backup/unbackup/ignore; every state function reads the source only through next(), whose contract is independent of chunk boundaries", bad))
	}

	// ---- C20: layout tokens compile to nothing --------------------------------------------------------
	{
		var bad []string
		emitClasses := []string{"H_Prog_code", "H_Prog_constants", "H_Prog_positions", "E_uint8", "E_value"}
		for _, n := range []string{"(*parser).consume", "(*parser).match", "(*parser).matchEnd", "(*parser).advance", "(*parser).check", "(*parser).checkEnd"} {
			f := p.Lookup(n)
			if f == nil {
				bad = append(bad, "function not found: "+n)
				continue
			}
			ws := e.FuncWrites(f)
			for _, c := range emitClasses {
				if ws.Classes[c] {
					bad = append(bad, n+" may write "+c)
				}
			}
		}
		if f := p.Lookup("parens"); f != nil {
			for _, b := range f.Blocks {
				for _, ins := range b.Instrs {
					if ci, ok := ins.(ssa.CallInstruction); ok {
						if sc := ci.Common().StaticCallee(); sc != nil {
							switch p.FuncName(sc) {
							case "expr", "(*parser).consume":
							default:
								bad = append(bad, "parens calls "+p.FuncName(sc))
							}
						} else if _, isB := ci.Common().Value.(*ssa.Builtin); !isB {
							bad = append(bad, "parens makes a dynamic call at "+p.Pos(instrPos(ins)))
						}
					}
				}
			}
			for _, a := range e.accessesOf(f) {
				if a.write {
					bad = append(bad, "parens writes "+a.class)
				}
			}
		} else {
			bad = append(bad, "function not found: parens")
		}
		sort.Strings(bad)
		out = append(out, effectsObl("discipline/layout-tokens-compile-to-nothing", []string{"C20"}, len(bad) == 0, "parse.go",
			"consuming a token (consume, match, matchEnd, advance, check, checkEnd - hence the optional ';' and the closing ')') writes no code, constant or position, and parens does nothing but parse the inner expression and consume ')': redundant parentheses and optional semicolons add no instructions", bad))
	}

	// ---- C16: determinism discipline ------------------------------------------------------------------
	{
		api := []*ssa.Function{}
		for _, n := range []string{"Parse", "ParseFile", "Interpret", "InterpretFile", "Unmarshal", "UnmarshalFile", "Execute", "Bind", "LoadProg"} {
			if f := bcl.Func(n); f != nil {
				api = append(api, f)
			}
		}
		api = append(api, p.Lookup("(*Prog).Dump"), p.Lookup("(*Prog).Load"), p.Lookup("(*lexer).run"))
		if pf := bcl.Func("ParseFile"); pf != nil {
			api = append(api, pf.AnonFuncs...)
		}
		// methods of the package's own types can be called by the libraries through an interface
		// (fmt calls String/Error/Format of any value it prints): every one of them is an entry point
		for _, f := range p.All {
			if f != nil && f.Signature != nil && f.Signature.Recv() != nil && p.InVerifiedPkg(f) && f.Blocks != nil && f.Synthetic == "" {
				api = append(api, f)
			}
		}
		reach := e.reachable(api...)
		var badRange, badAmbient, badSelect []string
		for f := range reach {
			for _, b := range f.Blocks {
				for _, ins := range b.Instrs {
					switch ins := ins.(type) {
					case *ssa.Range:
						if _, ok := ins.X.Type().Underlying().(*types.Map); ok {
							if !e.collectsKeysForSorting(p, f, ins) {
								badRange = append(badRange, p.FuncName(f)+" "+p.Pos(instrPos(ins)))
							}
						}
					case ssa.CallInstruction:
						if sc := ins.Common().StaticCallee(); sc != nil && sc.Pkg != nil {
							switch sc.Pkg.Pkg.Path() {
							case "time", "math/rand", "math/rand/v2", "crypto/rand", "runtime":
								badAmbient = append(badAmbient, p.FuncName(f)+" calls "+sc.String()+" at "+p.Pos(instrPos(ins)))
							case "os":
								if sc.Name() == "Getenv" || sc.Name() == "Environ" || sc.Name() == "Getpid" {
									badAmbient = append(badAmbient, p.FuncName(f)+" calls "+sc.String()+" at "+p.Pos(instrPos(ins)))
								}
							}
						}
					case *ssa.Select:
						// a select with a send case must use an unbuffered channel made in the same function,
						// so that at most one of {send, cancellation} is enabled by the state of the peers
						for _, s := range ins.States {
							if s.Dir == types.SendOnly {
								if !unbufferedLocalChan(s.Chan) {
									badSelect = append(badSelect, p.FuncName(f)+" "+p.Pos(instrPos(ins)))
								}
							}
						}
					}
				}
			}
		}
		out = append(out, effectsObl("discipline/no-map-iteration-order-dependence", []string{"C16"}, len(badRange) == 0, "api-reachable code",
			"no function reachable from the API ranges over a map (iteration order is unspecified); keys are sorted before iterating", badRange))
		out = append(out, effectsObl("discipline/no-ambient-inputs", []string{"C16"}, len(badAmbient) == 0, "api-reachable code",
			"no function reachable from the API consults time, random numbers, the environment or the runtime", badAmbient))
		out = append(out, effectsObl("discipline/select-send-on-unbuffered-channel", []string{"C16", "C11"}, len(badSelect) == 0, "api.go",
			"every select with a send case sends on an unbuffered channel created in the same function", badSelect))
	}

	// ---- C19: the introspection flags only guard calls to observers ------------------------------------
	{
		observers := map[string]bool{"printStack": true, "(*Prog).disasmInstr": true, "(*Prog).disasm": true, "printPStats": true, "printXStats": true}
		flagField := func(t types.Type, i int) bool {
			st, ok := t.Underlying().(*types.Struct)
			if !ok {
				return false
			}
			n := st.Field(i).Name()
			tn := types.TypeString(t, func(*types.Package) string { return "" })
			return (tn == "config" || tn == "vmConfig" || tn == "vm") && (n == "disasm" || n == "trace" || n == "stats") && types.Identical(st.Field(i).Type(), types.Typ[types.Bool])
		}
		var bad []string
		for _, f := range p.All {
			if p.shortPkg(f) != "" {
				continue
			}
			for _, b := range f.Blocks {
				for _, ins := range b.Instrs {
					var v ssa.Value
					switch ins := ins.(type) {
					case *ssa.UnOp:
						if fa, ok := ins.X.(*ssa.FieldAddr); ok && ins.Op.String() == "*" {
							if flagField(fa.X.Type().Underlying().(*types.Pointer).Elem(), fa.Field) {
								v = ins
							}
						}
					case *ssa.Field:
						if flagField(ins.X.Type(), ins.Field) {
							v = ins
						}
					}
					if v == nil {
						continue
					}
					for _, msg := range e.flagUses(f, v, observers, flagField, 0) {
						bad = append(bad, p.FuncName(f)+": "+msg)
					}
				}
			}
		}
		out = append(out, effectsObl("discipline/flags-only-guard-observers", []string{"C19"}, len(bad) == 0, "api.go/machine.go/option.go",
			"every read of a disasm/trace/stats flag flows only into a branch whose guarded region consists of calls to the observers (printStack, disasmInstr, disasm, printPStats, printXStats) and rejoins, or into another flag field", bad))
	}
	return out
}

func unbufferedLocalChan(v ssa.Value) bool {
	switch c := v.(type) {
	case *ssa.MakeChan:
		if k, ok := c.Size.(*ssa.Const); ok {
			return k.Int64() == 0
		}
	case *ssa.UnOp:
		// load of a local / captured variable: find the stores to it
		var addr ssa.Value = c.X
		if fv, ok := addr.(*ssa.FreeVar); ok {
			// captured: look in the parent for the binding
			parent := fv.Parent().Parent()
			if parent == nil {
				return false
			}
			for _, b := range parent.Blocks {
				for _, ins := range b.Instrs {
					if mc, ok := ins.(*ssa.MakeClosure); ok && mc.Fn == fv.Parent() {
						for i, fv2 := range fv.Parent().FreeVars {
							if fv2 == fv && i < len(mc.Bindings) {
								return allStoresUnbuffered(mc.Bindings[i])
							}
						}
					}
				}
			}
			return false
		}
		return allStoresUnbuffered(addr)
	}
	return false
}

func allStoresUnbuffered(addr ssa.Value) bool {
	refs := addr.Referrers()
	if refs == nil {
		return false
	}
	found := false
	for _, r := range *refs {
		if st, ok := r.(*ssa.Store); ok && st.Addr == addr {
			mc, ok := st.Val.(*ssa.MakeChan)
			if !ok {
				return false
			}
			k, ok := mc.Size.(*ssa.Const)
			if !ok || k.Int64() != 0 {
				return false
			}
			found = true
		}
	}
	return found
}

// heldLock: the access happens while the function holds a mutex: a call to
// (*sync.Mutex).Lock dominates the access and the matching Unlock is deferred
// or follows.
func (e *Effects) heldLock(f *ssa.Function, at ssa.Instruction) bool {
	var lockBlock *ssa.BasicBlock
	lockIdx := -1
	hasUnlock := false
	for _, b := range f.Blocks {
		for i, ins := range b.Instrs {
			var cc *ssa.CallCommon
			switch c := ins.(type) {
			case *ssa.Call:
				cc = c.Common()
			case *ssa.Defer:
				cc = c.Common()
			}
			if cc == nil {
				continue
			}
			sc := cc.StaticCallee()
			if sc == nil {
				continue
			}
			switch sc.String() {
			case "(*sync.Mutex).Lock", "(*sync.RWMutex).Lock", "(*sync.RWMutex).RLock":
				if lockBlock == nil {
					lockBlock, lockIdx = b, i
				}
			case "(*sync.Mutex).Unlock", "(*sync.RWMutex).Unlock", "(*sync.RWMutex).RUnlock":
				hasUnlock = true
			}
		}
	}
	if lockBlock == nil || !hasUnlock {
		return false
	}
	ab := at.Block()
	if ab == lockBlock {
		for i, ins := range ab.Instrs {
			if ins == at {
				return i > lockIdx
			}
		}
	}
	return lockBlock.Dominates(ab)
}

// freshObjectAccess: the accessed object was allocated in this function (not yet shared).
func (e *Effects) freshObjectAccess(f *ssa.Function, at ssa.Instruction) bool {
	var addr ssa.Value
	switch i := at.(type) {
	case *ssa.Store:
		addr = i.Addr
	case *ssa.UnOp:
		addr = i.X
	}
	for d := 0; addr != nil && d < 10; d++ {
		switch a := addr.(type) {
		case *ssa.FieldAddr:
			addr = a.X
		case *ssa.IndexAddr:
			addr = a.X
		case *ssa.Alloc:
			return true
		default:
			return false
		}
	}
	return false
}

// flagUses checks how a loaded flag value is used.
func (e *Effects) flagUses(f *ssa.Function, v ssa.Value, observers map[string]bool, flagField func(types.Type, int) bool, depth int) []string {
	var bad []string
	refs := v.Referrers()
	if refs == nil || depth > 6 {
		return nil
	}
	for _, r := range *refs {
		switch u := r.(type) {
		case *ssa.DebugRef:
		case *ssa.If:
			// `if flag { ... }`: the then-region must consist of observer calls only;
			// with a && chain (err == nil && cf.disasm) the flag guards the innermost region
			bad = append(bad, e.regionOnlyObservers(f, u.Block().Succs[0], u.Block().Succs[1], observers)...)
		case *ssa.Store:
			// storing into another flag field (config -> vmConfig -> vm) or a local
			if fa, ok := u.Addr.(*ssa.FieldAddr); ok {
				if !flagField(fa.X.Type().Underlying().(*types.Pointer).Elem(), fa.Field) {
					bad = append(bad, "flag stored into a non-flag field at "+e.P.Pos(instrPos(u)))
				}
			} else if al, ok := u.Addr.(*ssa.Alloc); ok {
				// spilled local: follow its loads
				if lrefs := al.Referrers(); lrefs != nil {
					for _, lr := range *lrefs {
						if ld, ok := lr.(*ssa.UnOp); ok && ld.X == al {
							bad = append(bad, e.flagUses(f, ld, observers, flagField, depth+1)...)
						}
					}
				}
			} else {
				bad = append(bad, "flag stored at "+e.P.Pos(instrPos(u)))
			}
		case *ssa.Call:
			// passed as an argument: only to constructors of flag holders (vmConfig literal is a store); reject otherwise
			bad = append(bad, "flag passed to a call at "+e.P.Pos(instrPos(u)))
		case *ssa.Phi, *ssa.BinOp, *ssa.UnOp:
			bad = append(bad, e.flagUses(f, u.(ssa.Value), observers, flagField, depth+1)...)
		default:
			bad = append(bad, fmt.Sprintf("flag used by %T at %s", u, e.P.Pos(instrPos(r))))
		}
	}
	return bad
}

// regionOnlyObservers: all blocks reachable from `then` before reaching `join`
// contain only observer calls, loads, and pure address computations.
func (e *Effects) regionOnlyObservers(f *ssa.Function, then, join *ssa.BasicBlock, observers map[string]bool) []string {
	var bad []string
	seen := map[*ssa.BasicBlock]bool{}
	var walk func(b *ssa.BasicBlock)
	walk = func(b *ssa.BasicBlock) {
		if b == join || seen[b] {
			return
		}
		seen[b] = true
		if len(seen) > 8 {
			bad = append(bad, "flag-guarded region does not rejoin near "+e.P.Pos(instrPos(b.Instrs[0])))
			return
		}
		for _, ins := range b.Instrs {
			switch i := ins.(type) {
			case *ssa.DebugRef, *ssa.UnOp, *ssa.FieldAddr, *ssa.IndexAddr, *ssa.Field, *ssa.Slice, *ssa.Jump, *ssa.Extract, *ssa.BinOp, *ssa.If, *ssa.Phi:
			case *ssa.Call:
				sc := i.Common().StaticCallee()
				if sc == nil || !observers[e.P.FuncName(sc)] {
					bad = append(bad, "non-observer call in a flag-guarded region at "+e.P.Pos(instrPos(i)))
				}
			default:
				bad = append(bad, fmt.Sprintf("%T in a flag-guarded region at %s", i, e.P.Pos(instrPos(ins))))
			}
		}
		for _, s := range b.Succs {
			walk(s)
		}
	}
	walk(then)
	return bad
}

// collectsKeysForSorting recognises the order-insensitive idiom
//   for k := range m { keys = append(keys, k) }; sort.Strings(keys)
// the loop body only appends the key to a local slice that is later sorted.
func (e *Effects) collectsKeysForSorting(p *Program, f *ssa.Function, rng *ssa.Range) bool {
	var loop *Loop
	for _, l := range p.Loops(f) {
		for b := range l.Blocks {
			for _, ins := range b.Instrs {
				if nx, ok := ins.(*ssa.Next); ok && nx.Iter == rng {
					loop = l
				}
			}
		}
	}
	if loop == nil {
		return false
	}
	var target *ssa.Alloc
	for b := range loop.Blocks {
		for _, ins := range b.Instrs {
			switch i := ins.(type) {
			case *ssa.Next, *ssa.Extract, *ssa.If, *ssa.Jump, *ssa.DebugRef, *ssa.UnOp, *ssa.IndexAddr, *ssa.Slice, *ssa.Phi:
			case *ssa.Alloc:
				// varargs array for append, or the key variable
			case *ssa.Store:
				if al, ok := i.Addr.(*ssa.Alloc); ok {
					if _, isSlice := al.Type().(*types.Pointer).Elem().Underlying().(*types.Slice); isSlice {
						if target != nil && target != al {
							return false
						}
						target = al
					}
				} else if _, ok := i.Addr.(*ssa.IndexAddr); !ok {
					return false
				}
			case *ssa.Call:
				if b, ok := i.Common().Value.(*ssa.Builtin); !ok || b.Name() != "append" {
					return false
				}
			default:
				return false
			}
		}
	}
	if target == nil {
		return false
	}
	// the slice must be sorted after the loop
	for _, b := range f.Blocks {
		for _, ins := range b.Instrs {
			c, ok := ins.(*ssa.Call)
			if !ok {
				continue
			}
			sc := c.Common().StaticCallee()
			if sc == nil || sc.Pkg == nil || sc.Pkg.Pkg.Path() != "sort" {
				continue
			}
			for _, a := range c.Common().Args {
				if u, ok := a.(*ssa.UnOp); ok && u.X == target {
					return true
				}
			}
		}
	}
	return false
}

// instrBefore: a executes before b on every path reaching b (same block and earlier, or a's block strictly dominates b's).
func instrBefore(a, b ssa.Instruction) bool {
	if a.Block() == nil || b.Block() == nil || a.Parent() != b.Parent() {
		return false
	}
	if a.Block() == b.Block() {
		for _, i := range a.Block().Instrs {
			if i == a {
				return true
			}
			if i == b {
				return false
			}
		}
		return false
	}
	return a.Block().Dominates(b.Block())
}

// globalUseIsLoadOnly: the instruction uses the address of global g only to read from it
// (directly, or through field/element addresses that are themselves only read), or stores to it.
// addrUsedForLoadsOnly: the address is only loaded from, or stored to (stores are counted as writes
// elsewhere), or narrowed to a field / element address used in the same way.
func addrUsedForLoadsOnly(v ssa.Value, depth int) bool {
	if depth > 6 {
		return false
	}
	refs := v.Referrers()
	if refs == nil {
		return true
	}
	for _, r := range *refs {
		switch r := r.(type) {
		case *ssa.UnOp:
			if r.Op.String() != "*" {
				return false
			}
		case *ssa.FieldAddr:
			if r.X != v || !addrUsedForLoadsOnly(r, depth+1) {
				return false
			}
		case *ssa.IndexAddr:
			if r.X != v || !addrUsedForLoadsOnly(r, depth+1) {
				return false
			}
		case *ssa.Store:
			if r.Addr != v {
				return false
			}
		case *ssa.DebugRef:
		default:
			return false
		}
	}
	return true
}

func globalUseIsLoadOnly(ins ssa.Instruction, g *ssa.Global) bool {
	var addrOK func(v ssa.Value, depth int) bool
	addrOK = func(v ssa.Value, depth int) bool {
		if depth > 6 {
			return false
		}
		refs := v.Referrers()
		if refs == nil {
			return true
		}
		for _, r := range *refs {
			switch r := r.(type) {
			case *ssa.UnOp:
				if r.Op.String() != "*" {
					return false
				}
			case *ssa.FieldAddr:
				if r.X != v || !addrOK(r, depth+1) {
					return false
				}
			case *ssa.IndexAddr:
				if r.X != v || !addrOK(r, depth+1) {
					return false
				}
			case *ssa.Store:
				if r.Addr != v {
					return false // the address itself is stored somewhere
				}
			case *ssa.DebugRef:
			default:
				return false
			}
		}
		return true
	}
	switch i := ins.(type) {
	case *ssa.UnOp:
		return i.Op.String() == "*"
	case *ssa.Store:
		return i.Addr == ssa.Value(g) && i.Val != ssa.Value(g)
	case *ssa.FieldAddr:
		return i.X == ssa.Value(g) && addrOK(i, 0)
	case *ssa.IndexAddr:
		return i.X == ssa.Value(g) && addrOK(i, 0)
	case *ssa.DebugRef:
		return true
	case *ssa.MapUpdate, *ssa.Lookup:
		return false
	}
	return false
}

// lockLeaks returns the returns of f that can be reached from a Lock call without passing an Unlock
// (functions whose Unlock is deferred after the Lock in the same block, or in a block the Lock's
// block dominates and which itself dominates every return, are balanced by construction).
func lockLeaks(f *ssa.Function) []string {
	isCall := func(ins ssa.Instruction, names ...string) (bool, bool) {
		var cc *ssa.CallCommon
		deferred := false
		switch c := ins.(type) {
		case *ssa.Call:
			cc = c.Common()
		case *ssa.Defer:
			cc, deferred = c.Common(), true
		}
		if cc == nil {
			return false, false
		}
		sc := cc.StaticCallee()
		if sc == nil {
			return false, false
		}
		for _, n := range names {
			if sc.String() == n {
				return true, deferred
			}
		}
		return false, false
	}
	locks := []string{"(*sync.Mutex).Lock", "(*sync.RWMutex).Lock", "(*sync.RWMutex).RLock"}
	unlocks := []string{"(*sync.Mutex).Unlock", "(*sync.RWMutex).Unlock", "(*sync.RWMutex).RUnlock"}
	var out []string
	for _, b := range f.Blocks {
		for i, ins := range b.Instrs {
			if is, d := isCall(ins, locks...); !is || d {
				continue
			}
			// walk forward from the instruction after the Lock
			type pt struct {
				b *ssa.BasicBlock
				i int
			}
			seen := map[*ssa.BasicBlock]bool{}
			work := []pt{{b, i + 1}}
			for len(work) > 0 {
				w := work[len(work)-1]
				work = work[:len(work)-1]
				released := false
				for j := w.i; j < len(w.b.Instrs) && !released; j++ {
					x := w.b.Instrs[j]
					if is, _ := isCall(x, unlocks...); is {
						released = true // called or deferred from here on
						break
					}
					if _, ok := x.(*ssa.Return); ok {
						out = append(out, fmt.Sprintf("returns at %s with the mutex locked at %s still held", f.Prog.Fset.Position(x.Pos()), f.Prog.Fset.Position(ins.Pos())))
					}
				}
				if released {
					continue
				}
				for _, s := range w.b.Succs {
					if !seen[s] {
						seen[s] = true
						work = append(work, pt{s, 0})
					}
				}
			}
		}
	}
	sort.Strings(out)
	return out
}
