package main

// Evaluation of contract expressions in a symbolic state.

import (
	"sort"
	"fmt"
	"go/constant"
	"go/token"
	"go/types"
	"strconv"
	"strings"

	"golang.org/x/tools/go/ssa"
)

type Env struct {
	x     *Exec
	st    *State
	old   *State
	vars  map[string]*Value
	frame *Frame
	pkg   *types.Package
	inOld bool
	inPrev bool // inside prev(): the loop-head state; a reassigned parameter denotes its value there, not at entry
	hint  types.Type // expected type for untyped constants in conditional branches
	newBase string   // allocation counter value at the start of the call: refs >= newBase are new
	prev  *State      // state at the head of the current loop iteration (for prev())
	aliasDepth int
}

func (e *Env) with(name string, v *Value) *Env {
	n := *e
	n.vars = make(map[string]*Value, len(e.vars)+1)
	for k, vv := range e.vars {
		n.vars[k] = vv
	}
	n.vars[name] = v
	return &n
}

func (e *Env) withResults(res []*Value, fn *ssa.Function) *Env {
	return e.withResultsSig(res, fn.Signature, nil)
}

func (e *Env) withResultsSig(res []*Value, sig *types.Signature, fc *FuncContract) *Env {
	n := *e
	n.vars = make(map[string]*Value, len(e.vars)+len(res)+1)
	for k, vv := range e.vars {
		n.vars[k] = vv
	}
	if len(res) == 1 {
		n.vars["result"] = res[0]
	}
	for i, r := range res {
		n.vars[fmt.Sprintf("result%d", i)] = r
		if sig != nil && i < sig.Results().Len() {
			if nm := sig.Results().At(i).Name(); nm != "" && nm != "_" {
				n.vars[nm] = r
			}
		}
		if fc != nil && i < len(fc.Results) && fc.Results[i].Name != "" && fc.Results[i].Name != "result" {
			n.vars[fc.Results[i].Name] = r
		}
	}
	return &n
}

// envFor builds the environment for the function under verification: params
// (entry values), locals by name (current values).
func (x *Exec) envFor(st *State, old *State, fr *Frame) *Env {
	e := &Env{x: x, st: st, old: old, vars: map[string]*Value{}, frame: fr, pkg: x.P.rootPkg(fr.Fn)}
	return e
}

func (x *Exec) initGhost(st *State) {
	for _, n := range x.C.GhostOrder {
		g := x.C.Ghosts[n]
		sort := x.ghostSort(g)
		name := "g_" + n
		x.Reg.Add(name, fmt.Sprintf("(declare-const %s %s)", name, sort))
		st.ghost[n] = &Value{T: name, Typ: x.ghostType(g), Sort: sort}
	}
}

func (x *Exec) ghostType(g *GhostVar) types.Type {
	t, _ := x.resolveType(g.Type, nil)
	return t
}

func (x *Exec) ghostSort(g *GhostVar) string {
	_, s := x.resolveType(g.Type, nil)
	return s
}

// resolveType maps a contract-language type name to a Go type (if any) and an SMT sort.
func (x *Exec) resolveType(name string, pkg *types.Package) (types.Type, string) {
	name = strings.TrimSpace(name)
	switch name {
	case "Int":
		return types.Typ[types.Int], "Int"
	case "Bool":
		return types.Typ[types.Bool], "Bool"
	case "Str":
		return types.Typ[types.String], "Str"
	case "Val":
		return x.valType(), "Val"
	case "Flt":
		return types.Typ[types.Float64], "Flt"
	case "Slice":
		return nil, "Slice"
	}
	if strings.HasPrefix(name, "(") {
		return nil, name // raw SMT sort
	}
	if strings.HasPrefix(name, "map[") {
		// ghost total map
		i := strings.Index(name, "]")
		_, ks := x.resolveType(name[4:i], pkg)
		_, vs := x.resolveType(name[i+1:], pkg)
		return nil, fmt.Sprintf("(Array %s %s)", ks, vs)
	}
	if strings.HasPrefix(name, "seq[") {
		_, es := x.resolveType(name[4:len(name)-1], pkg)
		return nil, fmt.Sprintf("(Array Int %s)", es)
	}
	for _, pk := range []*types.Package{pkg, x.curPkg, x.P.TPkgs["bcl"], x.P.TPkgs["main"]} {
		if pk == nil {
			continue
		}
		tv, err := types.Eval(x.P.Fset, pk, token.NoPos, name)
		if err == nil && tv.Type != nil {
			return tv.Type, x.Sorts.SortOf(tv.Type)
		}
	}
	// qualified names of imported packages: [*|[]]pkg.Name
	if t := x.qualifiedType(name); t != nil {
		return t, x.Sorts.SortOf(t)
	}
	x.limit("cannot resolve type %q", name)
	return nil, ""
}

func (x *Exec) qualifiedType(name string) types.Type {
	switch {
	case strings.HasPrefix(name, "*"):
		if t := x.qualifiedType(name[1:]); t != nil {
			return types.NewPointer(t)
		}
		return nil
	case strings.HasPrefix(name, "[]"):
		if t := x.qualifiedType(name[2:]); t != nil {
			return types.NewSlice(t)
		}
		return nil
	}
	i := strings.LastIndex(name, ".")
	if i < 0 {
		for _, pk := range []*types.Package{x.curPkg, x.P.TPkgs["bcl"]} {
			if pk == nil {
				continue
			}
			if tv, err := types.Eval(x.P.Fset, pk, token.NoPos, name); err == nil && tv.Type != nil {
				return tv.Type
			}
		}
		return nil
	}
	pn, tn := name[:i], name[i+1:]
	var cands []*types.Package
	for _, pk := range x.P.TPkgs {
		cands = append(cands, pk)
		cands = append(cands, pk.Imports()...)
	}
	for _, pk := range cands {
		if pk.Name() == pn || pk.Path() == pn {
			if o := pk.Scope().Lookup(tn); o != nil {
				if _, ok := o.(*types.TypeName); ok {
					return o.Type()
				}
			}
		}
	}
	return nil
}

func (x *Exec) blockType() types.Type {
	return x.P.TPkgs["bcl"].Scope().Lookup("Block").Type()
}

func (x *Exec) valType() types.Type {
	if o := x.P.TPkgs["bcl"].Scope().Lookup("value"); o != nil {
		return o.Type()
	}
	return types.NewInterfaceType(nil, nil)
}

func (x *Exec) evalBool(env *Env, e CExpr) string {
	v := x.eval(env, e)
	if v.T == "" && v.K != nil && v.K.Kind() == constant.Bool {
		if constant.BoolVal(v.K) {
			return "true"
		}
		return "false"
	}
	return x.term(v)
}

func boolV(t string) *Value  { return &Value{T: t, Typ: types.Typ[types.Bool]} }
func intV(t string) *Value   { return &Value{T: t, Typ: types.Typ[types.Int]} }

func (x *Exec) lookupLocal(env *Env, name string) *Value {
	fr := env.frame
	if fr == nil {
		return nil
	}
	// parameters: entry value (contract semantics), unless inside a loop invariant where the
	// current value is wanted -> `cur(name)`; we default to entry values for parameters
	// that are never reassigned, current cell value otherwise.
	// Search executed allocs from the most recent backwards.
	st := env.st
	if env.inOld && !env.inPrev {
		if v, ok := fr.Params[name]; ok {
			return v
		}
	}
	for i := len(fr.AllocSeq) - 1; i >= 0; i-- {
		al := fr.AllocSeq[i]
		if al.Comment == name {
			p := fr.Allocs[al]
			if p == nil {
				continue
			}
			if p.Kind == PCell {
				src := st
				if env.inOld {
					src = env.old
				}
				if v, ok := src.cells[p.Cell]; ok {
					return v
				}
				if v, ok := st.cells[p.Cell]; ok {
					return v
				}
			} else {
				if _, isStruct := structOf(p.Obj); isStruct && p.Kind == PObj && len(p.Path) == 0 && isExternalStruct(p.Obj) {
					// a heap-allocated local of an opaque library struct type denotes its value
					src := st
					if env.inOld {
						src = env.old
					}
					return x.loadIn(src, p)
				}
				return &Value{T: p.Ref, Typ: types.NewPointer(p.Obj), Ptr: p}
			}
		}
	}
	// the local was renamed: the contract file records which local (k-th of its type) the name meant
	if fc := x.contractOfFrame(fr); fc != nil && env.aliasDepth == 0 {
		if al, ok := fc.LocalAlias[name]; ok {
			if nn := localByOrdinal(fr.Fn, al); nn != "" && nn != name {
				x.abstraction("contract of %s names a local %q that no longer exists; using the %d. local of type %s (%q) instead", x.P.FuncName(fr.Fn), name, al.Ord, al.Type, nn)
				n2 := *env
				n2.aliasDepth = 1
				return x.lookupLocal(&n2, nn)
			}
		}
	}
	// captured variables of a closure: their current value (entry value inside old())
	if !env.inOld && fr.Fn != nil {
		for i, fv := range fr.Fn.FreeVars {
			var bv *Value
			if i < len(fr.Bindings) {
				bv = fr.Bindings[i]
			}
			if bv == nil {
				bv = fr.Regs[fv]
			}
			if fv.Name() == name && bv != nil && bv.Ptr != nil {
				bp := bv.Ptr
				if bp.Kind == PCell && len(bp.Path) == 0 {
					if v, ok := st.cells[bp.Cell]; ok {
						return v
					}
				}
			}
		}
	}
	if v, ok := fr.Params[name]; ok {
		return v
	}
	return nil
}

func (x *Exec) eval(env *Env, e CExpr) *Value {
	switch e := e.(type) {
	case *CLit:
		switch e.Kind {
		case "int":
			v, err := strconv.ParseInt(e.Val, 0, 64)
			if err != nil {
				k := constant.MakeFromLiteral(e.Val, token.INT, 0)
				if k.Kind() != constant.Int {
					x.limit("bad integer literal %s", e.Val)
				}
				return &Value{Typ: types.Typ[types.UntypedInt], K: k}
			}
			return &Value{Typ: types.Typ[types.UntypedInt], K: constant.MakeInt64(v)}
		case "bool":
			return &Value{Typ: types.Typ[types.Bool], K: constant.MakeBool(e.Val == "true")}
		case "string":
			return &Value{Typ: types.Typ[types.String], K: constant.MakeString(e.Val)}
		case "nil":
			return &Value{T: "0", Typ: types.Typ[types.UntypedNil]}
		}
	case *CIdent:
		return x.evalIdent(env, e.Name)
	case *CSel:
		return x.evalSel(env, e)
	case *CIndex:
		return x.evalIndex(env, e)
	case *CSlice:
		return x.evalSlice(env, e)
	case *CUn:
		v := x.eval(env, e.X)
		switch e.Op {
		case "!":
			if b, ok := v.isConstBool(); ok {
				return &Value{Typ: types.Typ[types.Bool], K: constant.MakeBool(!b)}
			}
			return boolV(not(x.term(v)))
		case "-":
			if v.K != nil {
				return &Value{Typ: v.Typ, K: constant.UnaryOp(token.SUB, v.K, 0)}
			}
			if v.Typ != nil && isBVType(v.Typ, x.Mode) {
				return &Value{T: app("bvneg", x.term(v)), Typ: v.Typ}
			}
			if v.Typ != nil && isFloatType(v.Typ) {
				return &Value{T: app("fneg", x.term(v)), Typ: v.Typ}
			}
			return &Value{T: app("-", x.term(v)), Typ: v.Typ}
		case "^":
			if v.Typ != nil && isBVType(v.Typ, x.Mode) {
				return &Value{T: app("bvnot", x.term(v)), Typ: v.Typ}
			}
		case "*":
			if v.Typ == nil {
				x.limit("dereference of a ghost value in contract")
			}
			src := env.st
			if env.inOld && env.old != nil {
				src = env.old
			}
			return x.loadIn(src, x.ptrOf(v))
		}
		x.limit("unsupported unary %s in contract", e.Op)
	case *CBin:
		return x.evalBin(env, e)
	case *CCond:
		c := x.eval(env, e.C)
		if b, ok := c.isConstBool(); ok {
			if b {
				return x.eval(env, e.A)
			}
			return x.eval(env, e.B)
		}
		a, b := x.eval(env, e.A), x.eval(env, e.B)
		t := a.Typ
		if (t == nil || isUntyped(t)) && b.Typ != nil && !isUntyped(b.Typ) {
			t = b.Typ
		}
		if t != nil && isUntyped(t) && env.hint != nil {
			t = env.hint
		}
		if t != nil && !isUntyped(t) {
			a, b = x.retype(a, t), x.retype(b, t)
		}
		return &Value{T: app("ite", x.term(c), x.termAs(a, t), x.termAs(b, t)), Typ: t, Sort: a.Sort}
	case *CQuant:
		return x.evalQuant(env, e)
	case *CCall:
		return x.evalCall(env, e)
	case *CTypeAssert:
		v := x.eval(env, e.X)
		t := x.term(v)
		switch e.Type {
		case "int":
			return intV(app("v_int", t))
		case "string":
			return &Value{T: app("v_str", t), Typ: types.Typ[types.String]}
		case "bool":
			return boolV(app("v_bool", t))
		case "float64":
			return &Value{T: app("v_flt", t), Typ: types.Typ[types.Float64]}
		}
		if !isValIface(v.Typ) {
			tt, _ := x.resolveType(e.Type, env.pkg)
			if tt != nil {
				pf := "ipayload_" + sanitize(elemKey(tt))
				x.Reg.Add(pf, fmt.Sprintf("(declare-fun %s (Int) %s)", pf, x.Sorts.SortOf(tt)))
				return &Value{T: app(pf, t), Typ: tt}
			}
		}
		if e.Type == "Block" {
			x.Sorts.SortOf(x.blockType())
			return &Value{T: app("mk_S_Block", app("vb_type", t), app("vb_name", t), app("vb_fields", t)), Typ: x.blockType()}
		}
		x.limit("unsupported type assertion .(%s) in contract", e.Type)
	}
	x.limit("cannot evaluate contract expression %v", e)
	return nil
}

func (x *Exec) evalIdent(env *Env, name string) *Value {
	if v, ok := env.vars[name]; ok {
		return v
	}
	if name == "$iter" && env.frame != nil {
		// position of the (unique) string iterator of the current frame
		var found *Value
		for _, rv := range env.frame.Regs {
			if rv != nil && rv.It != nil && rv.It.Kind == "string" {
				if found != nil && found != rv {
					x.limit("$iter is ambiguous: several string iterators in %s", env.frame.Fn.Name())
				}
				found = rv
			}
		}
		if found == nil {
			x.limit("$iter: no string iterator in scope")
		}
		return env.st.cells[found.It.Pos]
	}
	if v := x.lookupLocal(env, name); v != nil {
		return v
	}
	// package-level constants
	for _, pk := range []*types.Package{env.pkg, x.curPkg, x.P.TPkgs["bcl"], x.P.TPkgs["main"]} {
		if pk == nil {
			continue
		}
		if o := pk.Scope().Lookup(name); o != nil {
			switch o := o.(type) {
			case *types.Const:
				return &Value{Typ: o.Type(), K: o.Val()}
			case *types.Var:
				// global variable
				src := env.st
				if env.inOld {
					src = env.old
				}
				hn := "G_" + sanitize(pk.Name()+"."+name)
				_ = src
				return &Value{T: x.heapIn(src, hn, x.Sorts.SortOf(o.Type())), Typ: o.Type()}
			}
		}
	}
	// universe
	switch name {
	case "eof":
		return &Value{Typ: types.Typ[types.Rune], K: constant.MakeInt64(-1)}
	}
	x.limit("unknown identifier %q in contract of %s", name, x.fname)
	return nil
}

// heapIn reads a heap's term in a given state (old or current).
func (x *Exec) heapIn(st *State, name, sort string) string {
	if t, ok := st.heaps[name]; ok {
		return t
	}
	// never touched in that state: it still has its entry value
	return x.heap(st, name, sort)
}

func (x *Exec) stateFor(env *Env) *State {
	if env.inOld {
		return env.old
	}
	return env.st
}

func (x *Exec) evalSel(env *Env, e *CSel) *Value {
	if id, ok := e.X.(*CIdent); ok {
		if id.Name == "g" {
			st := x.stateFor(env)
			if v, ok := st.ghost[e.Name]; ok {
				return v
			}
			x.limit("unknown ghost variable g.%s", e.Name)
		}
		// qualified constant pkg.Name
		if _, bound := env.vars[id.Name]; !bound && x.lookupLocal(env, id.Name) == nil {
			if id.Name == "os" && e.Name == "Args" {
				if t := x.qualifiedType("[]string"); t != nil {
					src := x.stateFor(env)
					return &Value{T: x.heapIn(src, "G_"+sanitize("os.Args"), x.Sorts.SortOf(t)), Typ: t}
				}
			}
			switch id.Name + "." + e.Name {
			case "io.EOF", "io.ErrUnexpectedEOF", "bufio.ErrBufferFull", "io.ErrShortWrite", "io.ErrNoProgress", "bufio.ErrNegativeCount":
				return x.knownGlobal(id.Name+"."+e.Name, types.Universe.Lookup("error").Type())
			case "os.Stdout", "os.Stderr", "os.Stdin":
				if t := x.qualifiedType("*os.File"); t != nil {
					return x.knownGlobal(id.Name+"."+e.Name, t)
				}
			}
			for short, pk := range x.P.TPkgs {
				if short == id.Name || pk.Name() == id.Name {
					if o := pk.Scope().Lookup(e.Name); o != nil {
						if c, ok := o.(*types.Const); ok {
							return &Value{Typ: c.Type(), K: c.Val()}
						}
					}
				}
			}
		}
	}
	base := x.eval(env, e.X)
	if base.Tup != nil {
		i, err := strconv.Atoi(e.Name)
		if err == nil && i < len(base.Tup) {
			return base.Tup[i]
		}
	}
	if base.Typ == nil {
		x.limit("selector %s on untyped value", e.Name)
	}
	st := x.stateFor(env)
	t := base.Typ
	if pt, ok := t.Underlying().(*types.Pointer); ok {
		el := pt.Elem()
		stt, ok := structOf(el)
		if !ok {
			x.limit("selector .%s on pointer to non-struct", e.Name)
		}
		idx := fieldIndex(stt, e.Name)
		if idx < 0 {
			x.limit("no field %s in %s", e.Name, el)
		}
		if base.Ptr != nil && (base.Ptr.Kind != PObj || len(base.Ptr.Path) > 0) {
			// pointer into an aggregate or to a cell: step
			p := x.fieldAddr(base.Ptr, idx)
			return x.loadIn(st, p)
		}
		hn, hs := x.fieldHeapName(el, idx)
		v := &Value{T: app("select", x.heapIn(st, hn, hs), x.refTerm(base)), Typ: stt.Field(idx).Type()}
		v.T = x.normFieldSlice(v.T, v.Typ)
		return v
	}
	if stt, ok := structOf(t); ok {
		idx := fieldIndex(stt, e.Name)
		if idx < 0 {
			x.limit("no field %s in %s", e.Name, t)
		}
		sn := x.Sorts.structSort(t, stt)
		return &Value{T: app(x.Sorts.fieldSel(sn, stt, idx), x.term(base)), Typ: stt.Field(idx).Type()}
	}
	x.limit("selector .%s on %s", e.Name, t)
	return nil
}

func (x *Exec) loadIn(st *State, p *Pointer) *Value {
	// load without adding assumptions to a (possibly snapshot) state
	if p.Kind == PCell && len(p.Path) == 0 {
		return st.cells[p.Cell]
	}
	t, _ := x.rootReadIn(st, p)
	for _, s := range p.Path {
		t = x.project(t, s)
	}
	return &Value{T: t, Typ: p.Typ}
}

func (x *Exec) rootReadIn(st *State, p *Pointer) (string, types.Type) {
	switch p.Kind {
	case PCell:
		return x.term(st.cells[p.Cell]), p.Cell.Typ
	case PField:
		hn, hs := x.fieldHeapName(p.Obj, p.Field)
		stt, _ := structOf(p.Obj)
		return app("select", x.heapIn(st, hn, hs), p.Ref), stt.Field(p.Field).Type()
	case PElem:
		var el types.Type
		if len(p.Path) > 0 {
			el = p.Path[0].Parent
		} else {
			el = p.Typ
		}
		hn, hs := x.elemHeapName(el)
		return app("select", app("select", x.heapIn(st, hn, hs), p.Ref), p.Idx), el
	case PObj:
		if stt, ok := structOf(p.Obj); ok {
			sn := x.Sorts.structSort(p.Obj, stt)
			if stt.NumFields() == 0 {
				return "mk_" + sn, p.Obj
			}
			var fs []string
			for i := 0; i < stt.NumFields(); i++ {
				hn, hs := x.fieldHeapName(p.Obj, i)
				fs = append(fs, app("select", x.heapIn(st, hn, hs), p.Ref))
			}
			return app("mk_"+sn, fs...), p.Obj
		}
	}
	x.limit("rootReadIn: unsupported pointer kind")
	return "", nil
}

func fieldIndex(st *types.Struct, name string) int {
	for i := 0; i < st.NumFields(); i++ {
		if st.Field(i).Name() == name {
			return i
		}
	}
	return -1
}

func (x *Exec) evalIndex(env *Env, e *CIndex) *Value {
	base := x.eval(env, e.X)
	idx := x.eval(env, e.I)
	st := x.stateFor(env)
	if base.Typ == nil {
		// ghost array
		return &Value{T: app("select", x.term(base), x.term(idx)), Sort: arrayElemSort(base.Sort)}
	}
	it := x.termAs(idx, types.Typ[types.Int])
	switch u := base.Typ.Underlying().(type) {
	case *types.Slice:
		arr, off, _, _ := x.sliceParts(x.term(base))
		hn, hs := x.elemHeapName(u.Elem())
		return &Value{T: app("select", app("select", x.heapIn(st, hn, hs), arr), addT(off, it)), Typ: u.Elem()}
	case *types.Array:
		return &Value{T: app("select", x.term(base), it), Typ: u.Elem()}
	case *types.Basic:
		if isStringType(base.Typ) {
			return &Value{T: app("sat", x.term(base), it), Typ: types.Typ[types.Byte]}
		}
	case *types.Map:
		_, vn, _, vs := x.mapHeapNames(u)
		k := x.termAs(idx, u.Key())
		return &Value{T: app("select", app("select", x.heapIn(st, vn, vs), x.term(base)), k), Typ: u.Elem()}
	case *types.Pointer:
		if at, ok := u.Elem().Underlying().(*types.Array); ok {
			hn, hs := x.elemHeapName(at.Elem())
			return &Value{T: app("select", app("select", x.heapIn(st, hn, hs), x.refTerm(base)), it), Typ: at.Elem()}
		}
	}
	x.limit("index on %s in contract", base.Typ)
	return nil
}

func arrayElemSort(s string) string {
	// "(Array K V)" -> V
	if strings.HasPrefix(s, "(Array ") {
		fs := splitSexp(s[len("(Array ") : len(s)-1])
		if len(fs) == 2 {
			return fs[1]
		}
	}
	return ""
}

func (x *Exec) evalSlice(env *Env, e *CSlice) *Value {
	base := x.eval(env, e.X)
	lo := "0"
	if e.Lo != nil {
		lo = x.termAs(x.eval(env, e.Lo), types.Typ[types.Int])
	}
	if isStringType(base.Typ) {
		s := x.term(base)
		hi := app("slen", s)
		if e.Hi != nil {
			hi = x.termAs(x.eval(env, e.Hi), types.Typ[types.Int])
		}
		return &Value{T: app("ssub", s, lo, hi), Typ: base.Typ}
	}
	if _, ok := base.Typ.Underlying().(*types.Slice); ok {
		arr, off, ln, cp := x.sliceParts(x.term(base))
		hi := ln
		if e.Hi != nil {
			hi = x.termAs(x.eval(env, e.Hi), types.Typ[types.Int])
		}
		return &Value{T: app("mk_slice", arr, addT(off, lo), subT(hi, lo), subT(cp, lo)), Typ: base.Typ}
	}
	x.limit("slice expression on %s in contract", base.Typ)
	return nil
}

func (x *Exec) evalBin(env *Env, e *CBin) *Value {
	switch e.Op {
	case "&&":
		a := x.eval(env, e.X)
		if b, ok := a.isConstBool(); ok && !b {
			return a
		}
		return boolV(and(x.term(a), x.evalBool(env, e.Y)))
	case "||":
		a := x.eval(env, e.X)
		if b, ok := a.isConstBool(); ok && b {
			return a
		}
		return boolV(or(x.term(a), x.evalBool(env, e.Y)))
	case "==>":
		a := x.eval(env, e.X)
		if b, ok := a.isConstBool(); ok {
			if !b {
				return boolV("true")
			}
			return boolV(x.evalBool(env, e.Y))
		}
		// If the consequent mentions a local that does not exist on this path, the
		// clause can only hold here by the antecedent being false: demand that.
		var res *Value
		func() {
			defer func() {
				if r := recover(); r != nil {
					if tl, ok := r.(toolLimit); ok && strings.HasPrefix(tl.msg, "unknown identifier") {
						res = boolV(not(x.term(a)))
						return
					}
					panic(r)
				}
			}()
			res = boolV(implies(x.term(a), x.evalBool(env, e.Y)))
		}()
		return res
	case "<==>":
		return boolV(eq(x.evalBool(env, e.X), x.evalBool(env, e.Y)))
	}
	a, b := x.eval(env, e.X), x.eval(env, e.Y)
	ops := map[string]token.Token{"==": token.EQL, "!=": token.NEQ, "<": token.LSS, "<=": token.LEQ, ">": token.GTR, ">=": token.GEQ,
		"+": token.ADD, "-": token.SUB, "*": token.MUL, "/": token.QUO, "%": token.REM, "<<": token.SHL, ">>": token.SHR,
		"&": token.AND, "|": token.OR, "^": token.XOR, "&^": token.AND_NOT}
	op, ok := ops[e.Op]
	if !ok {
		x.limit("unknown operator %s", e.Op)
	}
	// ghost / raw-sort values: plain SMT
	if a.Typ == nil || b.Typ == nil {
		ta, tb := x.rawTerm(a), x.rawTerm(b)
		switch e.Op {
		case "==":
			return boolV(eq(ta, tb))
		case "!=":
			return boolV(not(eq(ta, tb)))
		case "<", "<=", ">", ">=", "+", "-", "*":
			r := app(e.Op, ta, tb)
			if strings.ContainsAny(e.Op, "<>") {
				return boolV(r)
			}
			return &Value{T: r, Sort: "Int", Typ: types.Typ[types.Int]}
		}
		x.limit("operator %s on ghost values", e.Op)
	}
	// nil comparisons and mixed constant typing
	at, bt := a.Typ, b.Typ
	if isUntyped(at) && !isUntyped(bt) {
		a = x.retype(a, bt)
	} else if isUntyped(bt) && !isUntyped(at) && op != token.SHL && op != token.SHR {
		b = x.retype(b, at)
	}
	rt := a.Typ
	switch op {
	case token.EQL, token.NEQ, token.LSS, token.LEQ, token.GTR, token.GEQ:
		rt = types.Typ[types.Bool]
	}
	if isUntyped(a.Typ) && isUntyped(b.Typ) && a.K != nil && b.K != nil {
		if v := foldBinop(op, a.K, b.K, a.Typ); v != nil {
			if v.Kind() == constant.Bool {
				return &Value{Typ: types.Typ[types.Bool], K: v}
			}
			return &Value{Typ: a.Typ, K: v}
		}
	}
	// Val equality against typed constants: wrap
	if isValIface(a.Typ) != isValIface(b.Typ) && (op == token.EQL || op == token.NEQ) {
		if isValIface(a.Typ) {
			b = x.makeInterface(env.st, b, b.Typ, a.Typ)
		} else {
			a = x.makeInterface(env.st, a, a.Typ, b.Typ)
		}
		r := eq(x.term(a), x.term(b))
		if op == token.NEQ {
			r = not(r)
		}
		return boolV(r)
	}
	if isValIface(a.Typ) && (op == token.EQL || op == token.NEQ) {
		r := eq(x.term(a), x.term(b))
		if op == token.NEQ {
			r = not(r)
		}
		return boolV(r)
	}
	if isIntType(a.Typ) && !isBVType(a.Typ, x.Mode) {
		// contract arithmetic is mathematical (no wrap-around) in math mode
		ta, tb := x.termAs(a, a.Typ), x.termAs(b, a.Typ)
		switch op {
		case token.ADD:
			return &Value{T: app("+", ta, tb), Typ: a.Typ}
		case token.SUB:
			return &Value{T: app("-", ta, tb), Typ: a.Typ}
		case token.MUL:
			return &Value{T: app("*", ta, tb), Typ: a.Typ}
		case token.QUO:
			return &Value{T: app("div", ta, tb), Typ: a.Typ}
		case token.REM:
			return &Value{T: app("mod", ta, tb), Typ: a.Typ}
		}
	}
	// slices, structs: SMT equality
	if op == token.EQL || op == token.NEQ {
		switch a.Typ.Underlying().(type) {
		case *types.Slice, *types.Struct, *types.Array:
			r := eq(x.term(a), x.term(b))
			if op == token.NEQ {
				r = not(r)
			}
			return boolV(r)
		}
	}
	return x.binop(env.st, op, a, b, rt, nil)
}

func (x *Exec) rawTerm(v *Value) string {
	if v.T != "" {
		return v.T
	}
	return x.term(v)
}

func isUntyped(t types.Type) bool {
	b, ok := t.(*types.Basic)
	return ok && b.Info()&types.IsUntyped != 0
}

func (x *Exec) retype(v *Value, t types.Type) *Value {
	if v.K != nil {
		if v.K.Kind() == constant.Int && (isIntType(t) || isFloatType(t)) {
			return &Value{Typ: t, K: v.K}
		}
		if v.K.Kind() == constant.String && isStringType(t) {
			return &Value{Typ: t, K: v.K}
		}
		if v.K.Kind() == constant.Bool && isBoolType(t) {
			return &Value{Typ: t, K: v.K}
		}
		return v
	}
	if v.T == "0" && v.Typ == types.Typ[types.UntypedNil] {
		switch t.Underlying().(type) {
		case *types.Slice:
			return &Value{T: "(mk_slice 0 0 0 0)", Typ: t}
		case *types.Interface:
			if isValIface(t) {
				return &Value{T: "VNil", Typ: t}
			}
		}
		return &Value{T: "0", Typ: t}
	}
	return v
}

func (x *Exec) evalQuant(env *Env, q *CQuant) *Value {
	n := env
	var binders []string
	var guards []string
	for _, v := range q.Vars {
		t, s := x.resolveType(v.Type, env.pkg)
		name := x.Reg.Fresh("q_" + v.Name)
		binders = append(binders, fmt.Sprintf("(%s %s)", name, s))
		bv := &Value{T: name, Typ: t, Sort: s}
		n = n.with(v.Name, bv)
		if t != nil {
			if g := x.typeInv(name, t); g != "true" {
				guards = append(guards, g)
			}
		}
	}
	body := x.evalBool(n, q.Body)
	kw := "forall"
	if !q.Forall {
		kw = "exists"
		if len(guards) > 0 {
			body = and(append(guards, body)...)
		}
	} else if len(guards) > 0 {
		body = implies(and(guards...), body)
	}
	var names []string
	for _, b := range binders {
		names = append(names, strings.Fields(strings.Trim(b, "()"))[0])
	}
	if pat := autoPattern(body, names); pat != "" {
		return boolV(fmt.Sprintf("(%s (%s) (! %s :pattern (%s)))", kw, strings.Join(binders, " "), body, pat))
	}
	return boolV(fmt.Sprintf("(%s (%s) %s)", kw, strings.Join(binders, " "), body))
}

// autoPattern chooses explicit triggers for a quantifier: array reads and
// uninterpreted applications that mention the bound variables (never bare
// arithmetic, which makes e-matching explode). Returns "" if the bound variables
// cannot all be covered.
func autoPattern(body string, vars []string) string {
	type cand struct {
		text string
		vars map[string]bool
	}
	var cands []cand
	isVar := map[string]bool{}
	for _, v := range vars {
		isVar[v] = true
	}
	var walk func(t string) map[string]bool
	walk = func(t string) map[string]bool {
		used := map[string]bool{}
		if !strings.HasPrefix(t, "(") {
			if isVar[t] {
				used[t] = true
			}
			return used
		}
		parts := splitSexp(t[1 : len(t)-1])
		if len(parts) == 0 {
			return used
		}
		head := parts[0]
		if head == "forall" || head == "exists" || head == "!" || head == "let" {
			// do not look inside nested binders for triggers of the outer one
			for _, p := range parts[1:] {
				for v := range walk(p) {
					used[v] = true
				}
			}
			return used
		}
		for _, p := range parts[1:] {
			for v := range walk(p) {
				used[v] = true
			}
		}
		if strings.HasPrefix(head, "(") {
			for v := range walk(head) {
				used[v] = true
			}
		}
		// spec functions with a body are define-funs (macro-expanded by the solver): useless as triggers
		ok := head == "select" || head == "sat" || head == "slen" || head == "rune_at" || head == "rune_w" || (strings.HasPrefix(head, "sp_") && uninterpretedSpecs[head]) || head == "ssub" || head == "scat"
		if ok && len(used) > 0 && !strings.Contains(t, "(forall ") && !strings.Contains(t, "(exists ") && !strings.Contains(t, "(ite ") {
			cands = append(cands, cand{t, used})
		}
		return used
	}
	walk(body)
	if len(cands) == 0 {
		return ""
	}
	// prefer terms in which the bound variables occur as direct arguments (not under
	// arithmetic, which e-matching handles badly), then small terms
	clean := func(c cand) bool {
		parts := splitSexp(c.text[1 : len(c.text)-1])
		for v := range c.vars {
			direct := false
			for _, p := range parts[1:] {
				if p == v {
					direct = true
				}
			}
			if !direct {
				return false
			}
		}
		return true
	}
	sort.SliceStable(cands, func(i, j int) bool {
		ci, cj := clean(cands[i]), clean(cands[j])
		if ci != cj {
			return ci
		}
		return len(cands[i].text) < len(cands[j].text)
	})
	covered := map[string]bool{}
	var chosen []string
	for _, c := range cands {
		adds := false
		for v := range c.vars {
			if !covered[v] {
				adds = true
			}
		}
		if !adds {
			continue
		}
		dup := false
		for _, ch := range chosen {
			if ch == c.text {
				dup = true
			}
		}
		if dup {
			continue
		}
		chosen = append(chosen, c.text)
		for v := range c.vars {
			covered[v] = true
		}
		if len(covered) == len(vars) {
			break
		}
	}
	if len(covered) != len(vars) {
		return ""
	}
	return strings.Join(chosen, " ")
}

// ---------------------------------------------------------------------------
// calls in contracts: old, len, cap, conversions, spec functions, Val helpers

func (x *Exec) evalCall(env *Env, c *CCall) *Value {
	arg := func(i int) *Value { return x.eval(env, c.Args[i]) }
	if c.Fn == "fn" && len(c.Args) == 1 {
		if _, ok := c.Args[0].(*CLit); !ok {
			x.limit("fn() takes a string literal")
		}
	}
	switch c.Fn {
	case "old":
		n := *env
		n.inOld = true
		return x.eval(&n, c.Args[0])
	case "prev":
		if env.prev == nil {
			x.limit("prev() outside a loop step clause")
		}
		n := *env
		n.inOld = true
		n.inPrev = true
		n.old = env.prev
		return x.eval(&n, c.Args[0])
	case "len":
		a := arg(0)
		if a.Typ == nil {
			x.limit("len of ghost value")
		}
		switch u := a.Typ.Underlying().(type) {
		case *types.Slice:
			_, _, ln, _ := x.sliceParts(x.term(a))
			return intV(ln)
		case *types.Basic:
			if a.K != nil && a.K.Kind() == constant.String {
				return &Value{Typ: types.Typ[types.Int], K: constant.MakeInt64(int64(len(constant.StringVal(a.K))))}
			}
			return intV(app("slen", x.term(a)))
		case *types.Array:
			return &Value{Typ: types.Typ[types.Int], K: constant.MakeInt64(u.Len())}
		}
		x.limit("len of %s", a.Typ)
	case "cap":
		_, _, _, cp := x.sliceParts(x.term(arg(0)))
		return intV(cp)
	case "arr":
		a, _, _, _ := x.sliceParts(x.term(arg(0)))
		return intV(a)
	case "off":
		_, o, _, _ := x.sliceParts(x.term(arg(0)))
		return intV(o)
	case "dom", "has":
		// has(m, k): key present in map m
		m, k := arg(0), arg(1)
		mt := m.Typ.Underlying().(*types.Map)
		dn, _, ds, _ := x.mapHeapNames(mt)
		return boolV(and(not(eq(x.term(m), "0")), app("select", app("select", x.heapIn(x.stateFor(env), dn, ds), x.term(m)), x.termAs(k, mt.Key()))))
	case "is_nil":
		return boolV(app("(_ is VNil)", x.term(arg(0))))
	case "is_int":
		return boolV(app("(_ is VInt)", x.term(arg(0))))
	case "is_float":
		return boolV(app("(_ is VFloat)", x.term(arg(0))))
	case "is_str":
		return boolV(app("(_ is VStr)", x.term(arg(0))))
	case "is_bool":
		return boolV(app("(_ is VBool)", x.term(arg(0))))
	case "is_block":
		return boolV(app("(_ is VBlock)", x.term(arg(0))))
	case "as_int":
		return intV(app("v_int", x.term(arg(0))))
	case "as_float":
		return &Value{T: app("v_flt", x.term(arg(0))), Typ: types.Typ[types.Float64]}
	case "as_str":
		return &Value{T: app("v_str", x.term(arg(0))), Typ: types.Typ[types.String]}
	case "as_bool":
		return boolV(app("v_bool", x.term(arg(0))))
	case "VInt", "VFloat", "VStr", "VBool":
		a := arg(0)
		var at types.Type = types.Typ[types.Int]
		switch c.Fn {
		case "VFloat":
			at = types.Typ[types.Float64]
		case "VStr":
			at = types.Typ[types.String]
		case "VBool":
			at = types.Typ[types.Bool]
		}
		return &Value{T: app(c.Fn, x.termAs(a, at)), Typ: x.valType()}
	case "VNil":
		return &Value{T: "VNil", Typ: x.valType()}
	case "VBlockOf":
		a := x.term(arg(0))
		return &Value{T: app("VBlock", app("S_Block_Type", a), app("S_Block_Name", a), app("S_Block_Fields", a)), Typ: x.valType()}
	case "ite":
		cnd, a, b := arg(0), arg(1), arg(2)
		t := a.Typ
		if isUntyped(t) && b.Typ != nil {
			t = b.Typ
		}
		return &Value{T: app("ite", x.term(cnd), x.termAs(a, t), x.termAs(b, t)), Typ: t, Sort: a.Sort}
	case "invs":
		// conjunction of the object invariants (and history constraints w.r.t. the
		// function entry) that apply to the value's type
		a := arg(0)
		var cs []string
		var skip map[string]bool
		if fc := x.fc; fc != nil {
			skip = fc.NoInv
		}
		for _, inv := range x.C.Invs {
			if skip[inv.Name] || skip["*"] {
				continue
			}
			if a.Typ != nil && x.typeMatches(a.Typ, inv.Type) {
				if inv.History && !x.isEntryParam(a) {
					continue
				}
				cs = append(cs, x.evalBool(env.with(inv.Binder, a), inv.Expr))
			}
		}
		return boolV(and(cs...))
	case "fn":
		// identity of a function of the verified packages, for comparison with function values
		name := c.Args[0].(*CLit).Val
		f := x.P.Lookup(name)
		if f == nil {
			x.limit("fn(%q): no such function", name)
		}
		return &Value{T: fmt.Sprint(x.fnID(f)), Sort: "Int"}
	case "elems":
		// the backing array of a slice as a value (index 0 = first element of the slice when offset is 0)
		a := arg(0)
		sl, ok := a.Typ.Underlying().(*types.Slice)
		if !ok {
			x.limit("elems() of a non-slice")
		}
		arr, off, _, _ := x.sliceParts(x.term(a))
		if off != "0" {
			x.limit("elems() of a slice with a symbolic offset")
		}
		hn, hs := x.elemHeapName(sl.Elem())
		return &Value{T: app("select", x.heapIn(x.stateFor(env), hn, hs), arr), Typ: types.NewArray(sl.Elem(), 1<<30)}
	case "istype":
		// dynamic type test on a (non-empty) interface value: istype(v, "T")
		a := arg(0)
		tn := ""
		switch a1 := c.Args[1].(type) {
		case *CLit:
			tn = strings.Trim(a1.Val, "\"")
		case *CIdent:
			tn = a1.Name
		default:
			x.limit("istype: second argument must be a type name")
		}
		t, _ := x.resolveType(tn, env.pkg)
		return boolV(and(not(eq(x.term(a), "0")), eq(app("dyntype", x.term(a)), fmt.Sprint(x.typeID(t)))))
	case "holds":
		// holds(i, v): the non-empty interface value i holds exactly the value v (of v's static type)
		a, b := arg(0), arg(1)
		if b.Typ == nil || isUntyped(b.Typ) {
			x.limit("holds(): second argument needs a static type")
		}
		fs := x.Sorts.SortOf(b.Typ)
		pf := "ipayload_" + sanitize(elemKey(b.Typ))
		x.Reg.Add(pf, fmt.Sprintf("(declare-fun %s (Int) %s)", pf, fs))
		return boolV(and(not(eq(x.term(a), "0")), eq(app("dyntype", x.term(a)), fmt.Sprint(x.typeID(b.Typ))), eq(app(pf, x.term(a)), x.termAs(b, b.Typ))))
	case "same":
		// identity of two values (for floats: the same value, not IEEE ==)
		a, b := arg(0), arg(1)
		t := a.Typ
		if t == nil || isUntyped(t) {
			t = b.Typ
		}
		return boolV(eq(x.termAs(a, t), x.termAs(b, t)))
	case "isnew":
		// the object / backing array / map was allocated during this call
		a := arg(0)
		base := env.newBase
		if base == "" {
			base = x.alloc0()
		}
		t := x.refTerm(a)
		if _, ok := a.Typ.Underlying().(*types.Slice); ok {
			t, _, _, _ = x.sliceParts(x.term(a))
		}
		return boolV(app(">=", t, base))
	case "store":
		a, k, v := arg(0), arg(1), arg(2)
		return &Value{T: app("store", x.rawTerm(a), x.rawTerm(k), x.rawTerm(v)), Typ: a.Typ, Sort: a.Sort}
	case "select":
		a, k := arg(0), arg(1)
		return &Value{T: app("select", x.rawTerm(a), x.rawTerm(k)), Sort: arrayElemSort(a.Sort)}
	case "smt":
		// raw SMT function application: smt("fname", args...) with Int result unless prefixed
		fn := c.Args[0].(*CLit).Val
		var as []string
		for i := 1; i < len(c.Args); i++ {
			as = append(as, x.rawTerm(arg(i)))
		}
		return &Value{T: app(fn, as...), Sort: "?"}
	}
	// conversions to Go types
	if t := x.convType(c.Fn, env); t != nil && len(c.Args) == 1 {
		a := arg(0)
		if isUntyped(a.Typ) {
			return x.retype(a, t)
		}
		if a.Typ == nil {
			return &Value{T: a.T, Typ: t}
		}
		return x.convert(env.st, a, t, nil)
	}
	// macros: expanded in the current state
	if mc, ok := x.C.Macros[c.Fn]; ok {
		if len(c.Args) != len(mc.Params) {
			x.limit("macro %s: %d args, want %d", mc.Name, len(c.Args), len(mc.Params))
		}
		n := env
		for i, p := range mc.Params {
			n = n.with(p.Name, x.eval(env, c.Args[i]))
		}
		return x.eval(n, mc.Body)
	}
	// spec functions
	if pf, ok := x.C.Pures[c.Fn]; ok {
		return x.applyPure(env, pf, c)
	}
	x.limit("unknown function %q in contract", c.Fn)
	return nil
}

func (x *Exec) convType(name string, env *Env) types.Type {
	switch name {
	case "int", "int8", "int16", "int32", "int64", "uint", "uint8", "uint16", "uint32", "uint64", "byte", "rune", "float64", "string", "bool":
		return types.Universe.Lookup(name).Type()
	case "[]byte":
		return types.NewSlice(types.Typ[types.Byte])
	}
	if tn := x.lookupTypeName(env, name); tn != nil {
		if _, ok := tn.Underlying().(*types.Basic); ok {
			return tn
		}
	}
	return nil
}

// applyPure declares the spec function (once per mode) and applies it.
func (x *Exec) applyPure(env *Env, pf *PureFunc, c *CCall) *Value {
	x.declarePure(pf)
	if len(c.Args) != len(pf.Params) {
		x.limit("spec function %s: %d args, want %d", pf.Name, len(c.Args), len(pf.Params))
	}
	var as []string
	for i, a := range c.Args {
		v := x.eval(env, a)
		pt, _ := x.resolveType(pf.Params[i].Type, nil)
		if pt != nil {
			as = append(as, x.termAs(v, pt))
		} else {
			as = append(as, x.rawTerm(v))
		}
	}
	rt, rs := x.resolveType(pf.Result, nil)
	return &Value{T: app(x.pureName(pf), as...), Typ: rt, Sort: rs}
}

func (x *Exec) pureName(pf *PureFunc) string { return "sp_" + pf.Name }

// names (sp_...) of spec functions without a body
var uninterpretedSpecs = map[string]bool{}

func (x *Exec) declarePure(pf *PureFunc) {
	name := x.pureName(pf)
	if x.Reg.Has(name) {
		return
	}
	var ps []string
	var psorts []string
	env := &Env{x: x, st: &State{cells: map[*Cell]*Value{}, heaps: map[string]string{}, hsort: map[string]string{}, ghost: map[string]*Value{}}, vars: map[string]*Value{}, pkg: x.P.TPkgs["bcl"]}
	env.old = env.st
	for _, p := range pf.Params {
		t, s := x.resolveType(p.Type, nil)
		pn := "p_" + p.Name
		ps = append(ps, fmt.Sprintf("(%s %s)", pn, s))
		psorts = append(psorts, s)
		env.vars[p.Name] = &Value{T: pn, Typ: t, Sort: s}
	}
	rt, rs := x.resolveType(pf.Result, nil)
	if pf.Body == nil {
		uninterpretedSpecs[name] = true
		x.Reg.Add(name, fmt.Sprintf("(declare-fun %s (%s) %s)", name, strings.Join(psorts, " "), rs))
		return
	}
	// register a placeholder first so recursive references resolve
	kw := "define-fun"
	if pf.Rec {
		kw = "define-fun-rec"
		x.Reg.Add(name, "", "")
		delete(x.Reg.decls, name)
	}
	// temporarily register to allow recursion during evaluation
	if pf.Rec {
		x.Reg.decls[name] = &Decl{Name: name, Text: "", Seq: 0}
	}
	env.hint = rt
	body := x.eval(env, pf.Body)
	if rt != nil && body.Typ != nil && isUntyped(body.Typ) {
		body = x.retype(body, rt)
	}
	bt := x.termAs(body, rt)
	if rt == nil {
		bt = x.rawTerm(body)
	}
	if pf.Rec {
		delete(x.Reg.decls, name)
	}
	x.Reg.Add(name, fmt.Sprintf("(%s %s (%s) %s %s)", kw, name, strings.Join(ps, " "), rs, bt))
}

// assumeLemma adds a proved lemma (universally quantified) as an assumption.
func (x *Exec) assumeLemma(st *State, name string) {
	lm, ok := x.C.Lemmas[name]
	if !ok {
		x.limit("unknown lemma %s", name)
	}
	st.assume(x.lemmaFormula(lm))
}

func (x *Exec) lemmaFormula(lm *Lemma) string {
	env := &Env{x: x, st: &State{cells: map[*Cell]*Value{}, heaps: map[string]string{}, hsort: map[string]string{}, ghost: map[string]*Value{}}, vars: map[string]*Value{}, pkg: x.P.TPkgs["bcl"]}
	env.old = env.st
	var binders []string
	var guards []string
	for _, p := range lm.Params {
		t, s := x.resolveType(p.Type, nil)
		pn := "l_" + lm.Name + "_" + p.Name
		binders = append(binders, fmt.Sprintf("(%s %s)", pn, s))
		env.vars[p.Name] = &Value{T: pn, Typ: t, Sort: s}
		if t != nil {
			if g := x.typeInv(pn, t); g != "true" {
				guards = append(guards, g)
			}
		}
	}
	var pre, post []string
	pre = append(pre, guards...)
	for _, r := range lm.Requires {
		pre = append(pre, x.evalBool(env, r))
	}
	for _, e := range lm.Ensures {
		post = append(post, x.evalBool(env, e))
	}
	body := implies(and(pre...), and(post...))
	if len(binders) == 0 {
		return body
	}
	names := make([]string, len(binders))
	for i, b := range binders {
		names[i] = strings.Fields(strings.Trim(b, "()"))[0]
	}
	if pat := autoPattern(and(post...), names); pat != "" {
		return fmt.Sprintf("(forall (%s) (! %s :pattern (%s)))", strings.Join(binders, " "), body, pat)
	}
	return fmt.Sprintf("(forall (%s) %s)", strings.Join(binders, " "), body)
}

// lemmaProofGoal: the statement to prove. With `by induction on m` the induction
// hypothesis (the lemma for m-1, same other parameters) is available when m > 0... 
// more precisely whenever the instance for m-1 satisfies the lemma's requires.
func (x *Exec) lemmaProofGoal(lm *Lemma) string {
	if lm.Induct == "" {
		return x.lemmaFormula(lm)
	}
	env := &Env{x: x, st: &State{cells: map[*Cell]*Value{}, heaps: map[string]string{}, hsort: map[string]string{}, ghost: map[string]*Value{}}, vars: map[string]*Value{}, pkg: x.P.TPkgs["bcl"]}
	env.old = env.st
	var binders, guards []string
	for _, p := range lm.Params {
		t, s := x.resolveType(p.Type, nil)
		pn := "l_" + lm.Name + "_" + p.Name
		binders = append(binders, fmt.Sprintf("(%s %s)", pn, s))
		env.vars[p.Name] = &Value{T: pn, Typ: t, Sort: s}
		if t != nil {
			if g := x.typeInv(pn, t); g != "true" {
				guards = append(guards, g)
			}
		}
	}
	iv, ok := env.vars[lm.Induct]
	if !ok {
		x.limit("lemma %s: induction variable %s is not a parameter", lm.Name, lm.Induct)
	}
	build := func(e *Env) (string, string) {
		var pre, post []string
		for _, r := range lm.Requires {
			pre = append(pre, x.evalBool(e, r))
		}
		for _, en := range lm.Ensures {
			post = append(post, x.evalBool(e, en))
		}
		return and(pre...), and(post...)
	}
	pre, post := build(env)
	prevEnv := env.with(lm.Induct, &Value{T: app("-", iv.T, "1"), Typ: iv.Typ, Sort: iv.Sort})
	ppre, ppost := build(prevEnv)
	ih := implies(ppre, ppost)
	body := implies(and(append(guards, pre, ih)...), post)
	return fmt.Sprintf("(forall (%s) %s)", strings.Join(binders, " "), body)
}

func isExternalStruct(t types.Type) bool {
	if n, ok := t.(*types.Named); ok && n.Obj().Pkg() != nil {
		pp := n.Obj().Pkg().Path()
		return pp != bclPath && pp != mainPath && pp != uvarintPath
	}
	return false
}

// namedLocals: the named locals and captured variables of fn in source order, with their types.
func namedLocals(fn *ssa.Function) (names []string, typs []string) {
	q := func(p *types.Package) string { return p.Name() }
	seen := map[string]bool{}
	for _, fv := range fn.FreeVars {
		if pt, ok := fv.Type().(*types.Pointer); ok && !seen[fv.Name()] {
			seen[fv.Name()] = true
			names = append(names, fv.Name())
			typs = append(typs, types.TypeString(pt.Elem(), q))
		}
	}
	type al struct {
		pos  int
		name string
		typ  string
	}
	var as []al
	for _, b := range fn.Blocks {
		for _, ins := range b.Instrs {
			if a, ok := ins.(*ssa.Alloc); ok && a.Comment != "" && !strings.Contains(a.Comment, "$") && !strings.Contains(a.Comment, " ") && !seen[a.Comment] {
				seen[a.Comment] = true
				as = append(as, al{int(a.Pos()), a.Comment, types.TypeString(a.Type().(*types.Pointer).Elem(), q)})
			}
		}
	}
	sort.Slice(as, func(i, j int) bool { return as[i].pos < as[j].pos })
	for _, a := range as {
		names = append(names, a.name)
		typs = append(typs, a.typ)
	}
	return
}

func localByOrdinal(fn *ssa.Function, al LocalAlias) string {
	names, typs := namedLocals(fn)
	k := 0
	for i := range names {
		if typs[i] == al.Type {
			k++
			if k == al.Ord {
				return names[i]
			}
		}
	}
	return ""
}
