package main

// Contract expression language: lexer + Pratt parser.

import (
	"fmt"
	"strings"
	"unicode"
)

type CExpr interface{ String() string }

type (
	CIdent struct{ Name string }
	CLit   struct {
		Kind string // int, string, char, bool, nil
		Val  string
	}
	CBin   struct {
		Op   string
		X, Y CExpr
	}
	CUn struct {
		Op string
		X  CExpr
	}
	CSel struct {
		X    CExpr
		Name string
	}
	CIndex struct{ X, I CExpr }
	CSlice struct {
		X, Lo, Hi CExpr
	}
	CCall struct {
		Fn   string
		Args []CExpr
	}
	CVar struct {
		Name, Type string
	}
	CQuant struct {
		Forall bool
		Vars   []CVar
		Body   CExpr
	}
	CCond struct{ C, A, B CExpr }
	CTypeAssert struct {
		X    CExpr
		Type string
	}
)

func (e *CIdent) String() string { return e.Name }
func (e *CLit) String() string {
	if e.Kind == "string" {
		return fmt.Sprintf("%q", e.Val)
	}
	return e.Val
}
func (e *CBin) String() string   { return "(" + e.X.String() + " " + e.Op + " " + e.Y.String() + ")" }
func (e *CUn) String() string    { return e.Op + e.X.String() }
func (e *CSel) String() string   { return e.X.String() + "." + e.Name }
func (e *CIndex) String() string { return e.X.String() + "[" + e.I.String() + "]" }
func (e *CSlice) String() string {
	lo, hi := "", ""
	if e.Lo != nil {
		lo = e.Lo.String()
	}
	if e.Hi != nil {
		hi = e.Hi.String()
	}
	return e.X.String() + "[" + lo + ":" + hi + "]"
}
func (e *CCall) String() string {
	var as []string
	for _, a := range e.Args {
		as = append(as, a.String())
	}
	return e.Fn + "(" + strings.Join(as, ", ") + ")"
}
func (e *CQuant) String() string {
	q := "exists"
	if e.Forall {
		q = "forall"
	}
	var vs []string
	for _, v := range e.Vars {
		vs = append(vs, v.Name+" "+v.Type)
	}
	return "(" + q + " " + strings.Join(vs, ", ") + " :: " + e.Body.String() + ")"
}
func (e *CCond) String() string {
	return "(" + e.C.String() + " ? " + e.A.String() + " : " + e.B.String() + ")"
}
func (e *CTypeAssert) String() string { return e.X.String() + ".(" + e.Type + ")" }

// ---------------------------------------------------------------------------

type ctok struct {
	kind string // ident, int, string, char, op, eof
	val  string
	pos  int
}

type clexer struct {
	src  string
	pos  int
	toks []ctok
}

var cops = []string{"<==>", "==>", "::", "..", "&&", "||", "==", "!=", "<=", ">=", "<<", ">>", "&^",
	"+", "-", "*", "/", "%", "&", "|", "^", "<", ">", "!", "(", ")", "[", "]", "{", "}", ",", ".", ":", "?", "=", ";"}

func clex(src string) ([]ctok, error) {
	var toks []ctok
	i := 0
	for i < len(src) {
		c := src[i]
		switch {
		case c == ' ' || c == '\t' || c == '\n' || c == '\r':
			i++
		case c == '/' && i+1 < len(src) && src[i+1] == '/':
			// comment to end of line
			for i < len(src) && src[i] != '\n' {
				i++
			}
		case unicode.IsLetter(rune(c)) || c == '_' || c == '$':
			j := i
			for j < len(src) && (unicode.IsLetter(rune(src[j])) || unicode.IsDigit(rune(src[j])) || src[j] == '_' || src[j] == '$') {
				j++
			}
			toks = append(toks, ctok{"ident", src[i:j], i})
			i = j
		case c >= '0' && c <= '9':
			j := i
			for j < len(src) && (unicode.IsLetter(rune(src[j])) || unicode.IsDigit(rune(src[j])) || src[j] == '_') {
				j++
			}
			toks = append(toks, ctok{"int", strings.ReplaceAll(src[i:j], "_", ""), i})
			i = j
		case c == '"':
			j := i + 1
			var b strings.Builder
			for j < len(src) && src[j] != '"' {
				if src[j] == '\\' && j+1 < len(src) {
					j++
					switch src[j] {
					case 'n':
						b.WriteByte('\n')
					case 't':
						b.WriteByte('\t')
					case 'r':
						b.WriteByte('\r')
					case 'x':
						var v int
						fmt.Sscanf(src[j+1:j+3], "%02x", &v)
						b.WriteByte(byte(v))
						j += 2
					default:
						b.WriteByte(src[j])
					}
				} else {
					b.WriteByte(src[j])
				}
				j++
			}
			if j >= len(src) {
				return nil, fmt.Errorf("unterminated string at %d", i)
			}
			toks = append(toks, ctok{"string", b.String(), i})
			i = j + 1
		case c == '\'':
			j := i + 1
			var v rune
			if src[j] == '\\' {
				j++
				switch src[j] {
				case 'n':
					v = '\n'
				case 't':
					v = '\t'
				case 'r':
					v = '\r'
				case 'v':
					v = '\v'
				case 'f':
					v = '\f'
				default:
					v = rune(src[j])
				}
				j++
			} else {
				r := []rune(src[j:])
				v = r[0]
				j += len(string(r[0]))
			}
			if j >= len(src) || src[j] != '\'' {
				return nil, fmt.Errorf("bad char literal at %d", i)
			}
			toks = append(toks, ctok{"char", fmt.Sprint(int(v)), i})
			i = j + 1
		default:
			matched := false
			for _, op := range cops {
				if strings.HasPrefix(src[i:], op) {
					toks = append(toks, ctok{"op", op, i})
					i += len(op)
					matched = true
					break
				}
			}
			if !matched {
				return nil, fmt.Errorf("unexpected character %q at %d in %q", c, i, src)
			}
		}
	}
	toks = append(toks, ctok{"eof", "", len(src)})
	return toks, nil
}

type cparser struct {
	toks []ctok
	i    int
	src  string
}

func ParseCExpr(src string) (e CExpr, err error) {
	toks, err := clex(src)
	if err != nil {
		return nil, err
	}
	p := &cparser{toks: toks, src: src}
	defer func() {
		if r := recover(); r != nil {
			if pe, ok := r.(parseErr); ok {
				err = fmt.Errorf("%s (in %q)", string(pe), src)
				return
			}
			panic(r)
		}
	}()
	e = p.expr(0)
	if p.peek().kind != "eof" {
		p.fail("unexpected %q", p.peek().val)
	}
	return e, nil
}

type parseErr string

func (p *cparser) fail(f string, a ...any) { panic(parseErr(fmt.Sprintf(f, a...))) }
func (p *cparser) peek() ctok              { return p.toks[p.i] }
func (p *cparser) next() ctok              { t := p.toks[p.i]; p.i++; return t }
func (p *cparser) isOp(v string) bool      { t := p.peek(); return t.kind == "op" && t.val == v }
func (p *cparser) accept(v string) bool {
	if p.isOp(v) {
		p.i++
		return true
	}
	return false
}
func (p *cparser) expect(v string) {
	if !p.accept(v) {
		p.fail("expected %q, got %q", v, p.peek().val)
	}
}

var binPrec = map[string]int{
	"<==>": 1, "==>": 2,
	"||": 4, "&&": 5,
	"==": 6, "!=": 6, "<": 6, "<=": 6, ">": 6, ">=": 6,
	"+": 7, "-": 7, "|": 7, "^": 7,
	"*": 8, "/": 8, "%": 8, "<<": 8, ">>": 8, "&": 8, "&^": 8,
}

func (p *cparser) expr(minPrec int) CExpr {
	lhs := p.unary()
	for {
		t := p.peek()
		if t.kind == "op" && t.val == "?" && minPrec <= 3 {
			p.next()
			a := p.expr(0)
			p.expect(":")
			b := p.expr(3)
			lhs = &CCond{lhs, a, b}
			continue
		}
		if t.kind != "op" {
			break
		}
		prec, ok := binPrec[t.val]
		if !ok || prec < minPrec {
			break
		}
		p.next()
		var rhs CExpr
		if t.val == "==>" || t.val == "<==>" {
			rhs = p.expr(prec) // right assoc
		} else {
			rhs = p.expr(prec + 1)
		}
		lhs = &CBin{t.val, lhs, rhs}
	}
	return lhs
}

func (p *cparser) unary() CExpr {
	t := p.peek()
	if t.kind == "op" {
		switch t.val {
		case "!", "-", "^", "*":
			// `*p`: the value the pointer p points to
			p.next()
			return &CUn{t.val, p.unary()}
		}
	}
	if t.kind == "ident" && (t.val == "forall" || t.val == "exists") {
		p.next()
		var vars []CVar
		for {
			n := p.next()
			if n.kind != "ident" {
				p.fail("expected bound variable name")
			}
			ty := p.typeText()
			vars = append(vars, CVar{n.val, ty})
			if !p.accept(",") {
				break
			}
		}
		p.expect("::")
		body := p.expr(0)
		return &CQuant{t.val == "forall", vars, body}
	}
	return p.postfix(p.primary())
}

// typeText reads a type expression up to ',' or '::' or ')' at depth 0.
func (p *cparser) typeText() string {
	var b strings.Builder
	depth := 0
	for {
		t := p.peek()
		if t.kind == "eof" {
			break
		}
		if t.kind == "op" {
			if depth == 0 && (t.val == "," || t.val == "::" || t.val == ")" || t.val == "=" || t.val == "{") {
				break
			}
			if t.val == "(" || t.val == "[" {
				depth++
			}
			if t.val == ")" || t.val == "]" {
				depth--
			}
		}
		b.WriteString(t.val)
		p.next()
	}
	return b.String()
}

func (p *cparser) primary() CExpr {
	t := p.next()
	switch t.kind {
	case "int":
		return &CLit{"int", t.val}
	case "char":
		return &CLit{"int", t.val}
	case "string":
		return &CLit{"string", t.val}
	case "ident":
		switch t.val {
		case "true", "false":
			return &CLit{"bool", t.val}
		case "nil":
			return &CLit{"nil", "nil"}
		}
		return &CIdent{t.val}
	case "op":
		if t.val == "(" {
			e := p.expr(0)
			p.expect(")")
			return e
		}
		if t.val == "[" {
			// conversion like []byte(x): parse type then call
			p.expect("]")
			el := p.next()
			name := "[]" + el.val
			p.expect("(")
			a := p.expr(0)
			p.expect(")")
			return &CCall{name, []CExpr{a}}
		}
	}
	p.fail("unexpected token %q", t.val)
	return nil
}

func (p *cparser) postfix(e CExpr) CExpr {
	for {
		switch {
		case p.accept("."):
			if p.accept("(") {
				ty := p.typeText()
				p.expect(")")
				e = &CTypeAssert{e, ty}
				continue
			}
			n := p.next()
			if n.kind != "ident" && n.kind != "int" {
				p.fail("expected field name after '.'")
			}
			e = &CSel{e, n.val}
		case p.accept("["):
			var lo, hi CExpr
			if p.isOp(":") || p.isOp("..") {
				p.next()
				if !p.isOp("]") && !p.isOp(")") {
					hi = p.expr(0)
				}
				if !p.accept("]") {
					p.expect(")")
				}
				e = &CSlice{e, nil, hi}
				continue
			}
			lo = p.expr(0)
			if p.isOp(":") || p.isOp("..") {
				p.next()
				if !p.isOp("]") && !p.isOp(")") {
					hi = p.expr(0)
				}
				if !p.accept("]") {
					p.expect(")")
				}
				e = &CSlice{e, lo, hi}
				continue
			}
			p.expect("]")
			e = &CIndex{e, lo}
		case p.isOp("("):
			// call: callee must be an identifier or selector chain
			name := calleeName(e)
			if name == "" {
				return e
			}
			p.next()
			var args []CExpr
			if !p.isOp(")") {
				for {
					args = append(args, p.expr(0))
					if !p.accept(",") {
						break
					}
				}
			}
			p.expect(")")
			e = &CCall{name, args}
		default:
			return e
		}
	}
}

func calleeName(e CExpr) string {
	switch x := e.(type) {
	case *CIdent:
		return x.Name
	case *CSel:
		b := calleeName(x.X)
		if b == "" {
			return ""
		}
		return b + "." + x.Name
	}
	return ""
}
