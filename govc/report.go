package main

import (
	"encoding/json"
	"fmt"
	"go/types"
	"os"
	"path/filepath"
	"sort"
	"strconv"
	"strings"

	"golang.org/x/tools/go/ssa"
)

func namedTypeName(t types.Type) string {
	if nt, ok := t.(*types.Named); ok {
		return nt.Obj().Name()
	}
	return ""
}

// slotOfAddr: "Type.field" if addr is the address of a func-typed struct field.
func slotOfAddr(addr ssa.Value) string {
	fa, ok := addr.(*ssa.FieldAddr)
	if !ok {
		return ""
	}
	pt, ok := fa.X.Type().Underlying().(*types.Pointer)
	if !ok {
		return ""
	}
	st, ok := pt.Elem().Underlying().(*types.Struct)
	if !ok {
		return ""
	}
	tn := types.TypeString(pt.Elem(), func(p *types.Package) string { return "" })
	return tn + "." + st.Field(fa.Field).Name()
}

type aggObl struct {
	Name      string
	Props     []string
	Kind      string
	Where     string
	Src       string
	Instances int
	Status    string // proved failed unknown vacuous
	Solver    map[string]int
	Seconds   float64
	Fail      *OblResult
	anyReach  bool
}

type report struct {
	prop, tier string
	exit       int
	agg        []*aggObl
	ck         *Checker
	dis        *Discharger
	wall, gen  float64
	violations int
	known      []string
	instances  int
	lines      []string
	canaries   []map[string]any
}

func buildReport(ck *Checker, dis *Discharger, results []*OblResult, prop, tier string, wall, gen float64, verbose bool) *report {
	rep := &report{prop: prop, tier: tier, ck: ck, dis: dis, wall: wall, gen: gen}
	byName := map[string]*aggObl{}
	for _, r := range results {
		if r == nil {
			continue
		}
		rep.instances++
		a := byName[r.O.Name]
		if a == nil {
			a = &aggObl{Name: r.O.Name, Props: r.O.Props, Kind: r.O.Kind, Where: r.O.Where, Src: r.O.Src, Status: "proved", Solver: map[string]int{}}
			byName[r.O.Name] = a
			rep.agg = append(rep.agg, a)
		}
		a.Instances++
		a.Solver[r.Res.Solver]++
		a.Seconds += r.Res.Seconds
		if r.O.Kind == "vacuity" {
			// reachability: one satisfiable return path per function suffices
			if r.Status == "proved" {
				a.anyReach = true
			} else if a.Fail == nil {
				a.Fail = r
			}
			continue
		}
		if r.Status != "proved" {
			if a.Status == "proved" || (a.Status == "unknown" && r.Status == "failed") {
				a.Status = r.Status
				a.Fail = r
			}
		}
	}
	for _, a := range rep.agg {
		if a.Kind == "vacuity" {
			if a.anyReach {
				a.Status, a.Fail = "proved", nil
			} else {
				a.Status = "vacuous"
			}
		}
	}
	sort.Slice(rep.agg, func(i, j int) bool { return rep.agg[i].Name < rep.agg[j].Name })
	findings := loadFindings()
	nProved := 0
	for _, a := range rep.agg {
		if a.Status == "proved" {
			nProved++
			if verbose {
				fmt.Printf("  ok   %-70s x%d %v\n", a.Name, a.Instances, a.Solver)
			}
			continue
		}
		if f := matchFinding(findings, prop, a.Name); f != nil {
			line := fmt.Sprintf("KNOWN-FINDING: property=%s %s: %s", prop, a.Name, f.What)
			fmt.Println(line)
			rep.known = append(rep.known, line)
			continue
		}
		rep.violations++
		path := writeReplay(rep, a)
		suffix := ""
		replayed := tryReplay(rep, a, path)
		if !replayed {
			suffix = " no-failing-input-found"
		}
		fmt.Printf("  FAIL %-60s [%s] %s :: %s\n", a.Name, a.Status, a.Where, trunc(a.Src, 120))
		fmt.Printf("VIOLATION property=%s replay=%s%s\n", prop, path, suffix)
	}
	for _, e := range ck.toolErrs {
		fmt.Println("TOOL-LIMIT:", e)
	}
	if verbose {
		for a := range ck.abstractions {
			fmt.Println("ABSTRACTION:", a)
		}
	}
	// fail closed: zero obligations, missing functions, tool limits
	if len(rep.agg) == 0 {
		fmt.Printf("ERROR: no obligations generated for %s\n", prop)
		rep.exit = 2
	}
	if min := ck.C.MinObl[prop]; min > 0 && len(rep.agg) < min && ck.only == "" {
		fmt.Printf("ERROR: only %d obligations generated for %s, contract groups promise at least %d\n", len(rep.agg), prop, min)
		rep.exit = 2
	}
	if len(ck.toolErrs) > 0 {
		// a tool limit on the tree means undecided obligations: treated as a violation of the
		// claim "all obligations discharge" (no-failing-input-found)
		p := filepath.Join(verifDir, "replays", prop, "tool-limit.json")
		os.MkdirAll(filepath.Dir(p), 0o755)
		b, _ := json.MarshalIndent(map[string]any{"property": prop, "tool_limits": ck.toolErrs}, "", " ")
		os.WriteFile(p, b, 0o644)
		fmt.Printf("VIOLATION property=%s replay=%s no-failing-input-found\n", prop, p)
		rep.violations++
	}
	fmt.Printf("%s %s: %d obligations (%d VC instances), %d discharged, %d violations, %d known findings; gen %.1fs wall %.1fs; solvers %v\n",
		prop, tier, len(rep.agg), rep.instances, nProved, rep.violations, len(rep.known), gen, wall, dis.Stats)
	if rep.violations > 0 && rep.exit == 0 {
		rep.exit = 1
	}
	return rep
}

func writeReplay(rep *report, a *aggObl) string {
	dir := filepath.Join(verifDir, "replays", rep.prop)
	if rd := os.Getenv("GOVC_REPLAY_DIR"); rd != "" {
		dir = filepath.Join(rd, rep.prop)
	}
	os.MkdirAll(dir, 0o755)
	p := filepath.Join(dir, sanitize(a.Name)+".json")
	m := map[string]any{
		"property":   rep.prop,
		"obligation": a.Name,
		"kind":       a.Kind,
		"where":      a.Where,
		"clause":     a.Src,
		"status":     a.Status,
	}
	if a.Fail != nil {
		m["solver"] = a.Fail.Res.Solver
		m["solver_status"] = a.Fail.Res.Status
		m["solver_output"] = a.Fail.Res.Output
		m["path"] = a.Fail.O.Path
		var all []string
		for _, r := range a.Fail.All {
			all = append(all, fmt.Sprintf("%s: %s (%.2fs)", r.Solver, r.Status, r.Seconds))
		}
		m["solvers_tried"] = all
		if a.Fail.Res.Status == "sat" {
			for _, j := range rep.ck.jobs {
				if j.o == a.Fail.O {
					m["model"] = rep.dis.Model(j.reg, j.o, a.Fail.Res.Solver)
				}
			}
		}
	}
	b, _ := json.MarshalIndent(m, "", " ")
	os.WriteFile(p, b, 0o644)
	return p
}

type evidence struct {
	PropertyID  string         `json:"property_id"`
	Tier        string         `json:"tier"`
	Seed        int            `json:"seed"`
	Level       string         `json:"level"`
	Coverage    map[string]any `json:"coverage"`
	Assumptions []string       `json:"assumptions"`
	WallS       float64        `json:"wall_s"`
	Violations  int            `json:"violations"`
}

func writeEvidence(rep *report) {
	seed, _ := strconv.Atoi(os.Getenv("VERIF_SEED"))
	nProved := 0
	byBackend := map[string]int{}
	var samples []any
	var slow []*aggObl
	kinds := map[string]int{}
	for _, a := range rep.agg {
		if a.Status == "proved" {
			nProved++
		}
		for s, n := range a.Solver {
			byBackend[s] += n
		}
		kinds[a.Kind]++
		slow = append(slow, a)
	}
	sort.Slice(slow, func(i, j int) bool { return slow[i].Seconds > slow[j].Seconds })
	var slowest []any
	for i := 0; i < len(slow) && i < 10; i++ {
		slowest = append(slowest, map[string]any{"obligation": slow[i].Name, "seconds": round2(slow[i].Seconds), "instances": slow[i].Instances})
	}
	step := len(rep.agg)/8 + 1
	for i := 0; i < len(rep.agg); i += step {
		a := rep.agg[i]
		samples = append(samples, map[string]any{"obligation": a.Name, "kind": a.Kind, "where": a.Where, "clause": trunc(a.Src, 300), "status": a.Status, "vc_instances": a.Instances, "backends": a.Solver})
	}
	var abstr []string
	for l := range rep.ck.abstractions {
		abstr = append(abstr, l)
	}
	sort.Strings(abstr)
	solverTime := 0.0
	for _, t := range rep.dis.TimeBy {
		solverTime += t
	}
	trusted := []string{
		"govc itself (go/ssa -> VC generator, memory model, effect inference, contract parser): unverified; mitigated by must-fail/must-pass corpora, vacuity canaries, three solvers",
		"go/packages, go/types, go/ssa of golang.org/x/tools v0.29.0 as the reading of Go semantics",
		"SMT solvers z3 5.1.0, z3 4.8.12, cvc5 1.0.3 (an unsat answer is believed)",
		"machine arithmetic: Go int/int64 treated as mathematical integers in math-mode functions (no 64-bit wrap-around); sized and unsigned types wrap explicitly; bv-mode functions use exact bit-vector semantics",
		"float64 is an uninterpreted sort (operator identity and operand order only)",
		"strings are an abstract sort with length/byte/concat/substring axioms",
		"goroutine bodies are verified as sequential code; interleavings are not explored",
	}
	ev := evidence{PropertyID: rep.prop, Tier: rep.tier, Seed: seed, Level: "proof", WallS: round2(rep.wall), Violations: rep.violations}
	ev.Coverage = map[string]any{
		"obligations":              len(rep.agg),
		"discharged":               nProved,
		"vc_instances":             rep.instances,
		"checker_cmd":              fmt.Sprintf("/verif/bin/govc check --property %s --tier %s", rep.prop, rep.tier),
		"trusted_base":             trusted,
		"functions_under_contract": rep.ck.funcsUnder,
		"functions_verified_for_their_frame_only": rep.ck.framesOnly,
		"property_dependencies":    propDeps[rep.prop],
		"by_backend":               byBackend,
		"by_kind":                  kinds,
		"solver_time_s":            round2(solverTime),
		"vc_generation_s":          round2(rep.gen),
		"slowest":                  slowest,
		"samples":                  samples,
		"abstractions_taken":       abstr,
		"tool_limits":              rep.ck.toolErrs,
		"known_findings":           rep.known,
		"contract_files":           rep.ck.C.Files,
	}
	if rep.tier == "thorough" {
		ev.Coverage["cross_checked_by_other_solvers"] = rep.dis.Cross
		ev.Coverage["mutation_canaries"] = rep.canaries
		caught, applied := 0, 0
		for _, c := range rep.canaries {
			if a, _ := c["applied"].(bool); a {
				applied++
			}
			if k, _ := c["caught"].(bool); k {
				caught++
			}
		}
		ev.Coverage["mutation_canaries_caught"] = fmt.Sprintf("%d of %d applicable", caught, applied)
	}
	ev.Assumptions = append(ev.Assumptions, rep.ck.C.Assumptions...)
	ev.Assumptions = append(ev.Assumptions, abstr...)
	if ev.Assumptions == nil {
		ev.Assumptions = []string{}
	}
	os.MkdirAll(filepath.Join(verifDir, "evidence"), 0o755)
	b, _ := json.MarshalIndent(ev, "", " ")
	os.WriteFile(filepath.Join(verifDir, "evidence", rep.prop+".json"), b, 0o644)
}

func round2(f float64) float64 { return float64(int(f*100+0.5)) / 100 }

var _ = strings.TrimSpace
