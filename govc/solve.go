package main

// Script assembly and solver portfolio.

import (
	"regexp"
	"bytes"
	"context"
	"crypto/sha256"
	"fmt"
	"os"
	"os/exec"
	"path/filepath"
	"strings"
	"sync"
	"time"
)

type SolveResult struct {
	Status  string // unsat sat unknown timeout error
	Solver  string
	Seconds float64
	Output  string
	Script  string
}

// heapSyms: the heap-like symbols (E_, H_, MD_, MV_, G_, g_) of a term, version suffixes stripped.
func heapSyms(t string) map[string]bool {
	out := map[string]bool{}
	for _, s := range symbolsIn(t) {
		if strings.HasPrefix(s, "E_") || strings.HasPrefix(s, "H_") || strings.HasPrefix(s, "MD_") || strings.HasPrefix(s, "MV_") || strings.HasPrefix(s, "G_") || strings.HasPrefix(s, "g_") {
			if i := strings.Index(s, "!"); i > 0 {
				s = s[:i]
			}
			out[s] = true
		}
	}
	return out
}

var relevanceFilter = false

func assembleScript(reg *Registry, o *Obligation, forCVC5 bool, wantModel bool, dropExists bool) string {
	return assembleScriptRel(reg, o, forCVC5, wantModel, dropExists, false)
}

func assembleScriptRel(reg *Registry, o *Obligation, forCVC5 bool, wantModel bool, dropExists bool, relevant bool) string {
	var goalHeaps map[string]bool
	if relevant {
		goalHeaps = heapSyms(o.Goal)
		// heaps reachable through definitions used by the goal
		defs := map[string]string{}
		for _, it := range o.Items {
			if it.Def != "" {
				defs[it.Def] = it.Term
			}
		}
		work := symbolsIn(o.Goal)
		seen := map[string]bool{}
		for len(work) > 0 {
			s := work[len(work)-1]
			work = work[:len(work)-1]
			if seen[s] {
				continue
			}
			seen[s] = true
			if t, ok := defs[s]; ok {
				for h := range heapSyms(t) {
					goalHeaps[h] = true
				}
				work = append(work, symbolsIn(t)...)
			}
		}
	}
	// prune unused definitions (walk backwards)
	need := map[string]bool{}
	mark := func(t string) {
		for _, s := range symbolsIn(t) {
			need[s] = true
		}
	}
	goal := o.Goal
	mark(goal)
	keep := make([]bool, len(o.Items))
	for i := len(o.Items) - 1; i >= 0; i-- {
		it := o.Items[i]
		if it.Def == "" {
			keep[i] = true
			mark(it.Term)
		}
	}
	for i := len(o.Items) - 1; i >= 0; i-- {
		it := o.Items[i]
		if it.Def != "" && need[it.Def] {
			keep[i] = true
			mark(it.Term)
			mark(it.Sort)
		}
	}
	var body bytes.Buffer
	for i, it := range o.Items {
		if !keep[i] {
			continue
		}
		if it.Def != "" {
			fmt.Fprintf(&body, "(define-fun %s () %s %s)\n", it.Def, it.Sort, it.Term)
		} else if dropExists && strings.Contains(it.Term, "(exists ") {
			// weakened variant: hypotheses with nested existentials are dropped (sound: fewer assumptions)
			continue
		} else if relevant && strings.Contains(it.Term, "(forall ") && !sharesHeap(it.Term, goalHeaps) {
			// relevance-filtered variant: quantified hypotheses about unrelated heaps are dropped (sound)
			continue
		} else {
			fmt.Fprintf(&body, "(assert %s)\n", it.Term)
		}
	}
	if o.ExpectSat {
		// reachability: the assumptions alone must be satisfiable
	} else {
		fmt.Fprintf(&body, "(assert (not %s))\n", goal)
	}
	var sb bytes.Buffer
	if wantModel {
		sb.WriteString("(set-option :produce-models true)\n")
	}
	if forCVC5 {
		sb.WriteString("(set-logic ALL)\n")
	}
	fmt.Fprintf(&sb, "; obligation %s\n; where %s\n; clause %s\n", o.Name, o.Where, strings.ReplaceAll(o.Src, "\n", " "))
	for _, d := range reg.Closure(body.String()) {
		if d.Text != "" {
			sb.WriteString(d.Text)
			sb.WriteByte('\n')
		}
	}
	sb.Write(body.Bytes())
	sb.WriteString("(check-sat)\n")
	if wantModel {
		sb.WriteString("(get-model)\n")
	}
	return sb.String()
}

func sharesHeap(t string, hs map[string]bool) bool {
	for h := range heapSyms(t) {
		if hs[h] {
			return true
		}
	}
	return false
}

type Solver struct {
	Name string
	Args func(file string, timeoutS int) []string
	CVC5 bool
}

var solvers = []Solver{
	{Name: "z3-new", Args: func(f string, t int) []string { return []string{"z3-new", fmt.Sprintf("-T:%d", t), f} }},
	{Name: "z3", Args: func(f string, t int) []string { return []string{"z3", fmt.Sprintf("-T:%d", t), f} }},
	{Name: "z3-new-nomb", Args: func(f string, t int) []string { return []string{"z3-new", fmt.Sprintf("-T:%d", t), "smt.mbqi=false", f} }},
	{Name: "z3-nomb", Args: func(f string, t int) []string { return []string{"z3", fmt.Sprintf("-T:%d", t), "smt.mbqi=false", f} }},
	{Name: "cvc5", Args: func(f string, t int) []string {
		return []string{"cvc5", fmt.Sprintf("--tlimit=%d", t*1000), "--incremental", f}
	}, CVC5: true},
}

func runSolver(parent context.Context, s Solver, script string, dir string, id string, timeoutS int) SolveResult {
	file := filepath.Join(dir, fmt.Sprintf("%s.%s.smt2", id, s.Name))
	if err := os.WriteFile(file, []byte(script), 0o644); err != nil {
		return SolveResult{Status: "error", Solver: s.Name, Output: err.Error()}
	}
	args := s.Args(file, timeoutS)
	ctx, cancel := context.WithTimeout(parent, time.Duration(timeoutS+5)*time.Second)
	defer cancel()
	t0 := time.Now()
	cmd := exec.CommandContext(ctx, args[0], args[1:]...)
	var out bytes.Buffer
	cmd.Stdout = &out
	cmd.Stderr = &out
	_ = cmd.Run()
	el := time.Since(t0).Seconds()
	o := out.String()
	first := ""
	for _, ln := range strings.Split(o, "\n") {
		ln = strings.TrimSpace(ln)
		if ln == "" || strings.HasPrefix(ln, "WARNING") {
			continue
		}
		first = ln
		break
	}
	st := "error"
	switch first {
	case "unsat", "sat", "unknown":
		st = first
	case "timeout":
		st = "timeout"
	default:
		if ctx.Err() != nil || strings.Contains(o, "timeout") || strings.Contains(o, "interrupted") {
			st = "timeout"
		}
	}
	return SolveResult{Status: st, Solver: s.Name, Seconds: el, Output: trunc(o, 20000), Script: file}
}

type Discharger struct {
	Dir      string
	Quick    int // seconds, first attempt
	Full     int // seconds, portfolio
	Thorough bool
	cache    sync.Map
	mu       sync.Mutex
	Stats    map[string]int
	TimeBy   map[string]float64
	CrossCheck bool
	Cross    map[string]int
	crossMu  sync.Mutex
}

func NewDischarger(dir string, thorough bool) *Discharger {
	d := &Discharger{Dir: dir, Quick: 4, Full: 12, Thorough: thorough, Stats: map[string]int{}, TimeBy: map[string]float64{}}
	if thorough {
		d.Quick, d.Full = 10, 60
		d.CrossCheck = true
	}
	os.MkdirAll(dir, 0o755)
	return d
}

type OblResult struct {
	O       *Obligation
	Status  string // proved failed unknown vacuous
	Res     SolveResult
	All     []SolveResult
	ScriptID string
}

var undecidedMu sync.Mutex
var undecidedBy = map[string]int{}

func (d *Discharger) undecided(fn string) int {
	undecidedMu.Lock()
	defer undecidedMu.Unlock()
	return undecidedBy[fn]
}

func (d *Discharger) noteUndecided(fn string) {
	undecidedMu.Lock()
	undecidedBy[fn]++
	undecidedMu.Unlock()
}

func (d *Discharger) Discharge(reg *Registry, o *Obligation) *OblResult {
	r := &OblResult{O: o}
	if o.Folded {
		r.Status = "proved"
		be := "fold"
		if o.Kind == "effects" {
			be = "effects"
		}
		r.Res = SolveResult{Status: "unsat", Solver: be}
		d.count(be, 0)
		return r
	}
	if o.Kind == "effects" || o.Kind == "frame" && o.Goal == "false" {
		// decided by the effect analysis: a failed discipline check has no SMT script
		r.Status = "failed"
		r.Res = SolveResult{Status: "sat", Solver: "effects", Output: o.Src}
		d.count("effects", 0)
		return r
	}
	script := assembleScript(reg, o, false, false, false)
	h := sha256.Sum256([]byte(script))
	id := fmt.Sprintf("%x", h[:8])
	r.ScriptID = id
	if c, ok := d.cache.Load(id); ok {
		cr := c.(*OblResult)
		r.Status, r.Res, r.All = cr.Status, cr.Res, cr.All
		return r
	}
	want := "unsat"
	if o.ExpectSat {
		want = "sat"
	}
	finish := func(sr SolveResult) bool {
		r.All = append(r.All, sr)
		d.count(sr.Solver, sr.Seconds)
		if sr.Status == want {
			r.Status = "proved"
			r.Res = sr
			return true
		}
		if sr.Status == "sat" || sr.Status == "unsat" {
			// definite opposite answer
			if o.ExpectSat {
				r.Status = "vacuous"
			} else {
				r.Status = "failed"
			}
			r.Res = sr
			return true
		}
		return false
	}
	// stage 1: z3-new, short
	if finish(runSolver(context.Background(), solvers[0], script, d.Dir, id, d.Quick)) {
		if d.CrossCheck && r.Status == "proved" && !o.ExpectSat {
			d.crossCheck(reg, o, script, id)
		}
		d.cache.Store(id, r)
		return r
	}
	// A function that already has many undecided obligations (typically a changed body that no longer
	// fits its contract: an un-annotated loop unrolled into hundreds of paths) is not raced again and
	// again: the rest of its obligations stay undecided after the first stage and are reported as such.
	if !o.ExpectSat && d.undecided(o.Func) >= 8 {
		r.Status = "unknown"
		r.Res = SolveResult{Status: "unknown", Solver: "z3-new", Output: "not raced: " + o.Func + " already has 8 undecided obligations"}
		return r
	}
	// stage 2: portfolio in parallel. Variants: full script / script without
	// hypotheses containing nested existentials (sound weakening); z3 with and
	// without model-based quantifier instantiation; cvc5.
	type attempt struct {
		s      Solver
		script string
		tag    string
		weak   bool
	}
	var atts []attempt
	byName := func(n string) Solver {
		for _, s := range solvers {
			if s.Name == n {
				return s
			}
		}
		return solvers[0]
	}
	cvcScript := assembleScript(reg, o, true, false, false)
	atts = append(atts, attempt{byName("z3"), script, "", false}, attempt{byName("cvc5"), cvcScript, "", false}, attempt{byName("z3-new"), script, "", false})
	if !o.ExpectSat {
		atts = append(atts, attempt{byName("z3-new-nomb"), script, "", true})
		weak := assembleScript(reg, o, false, false, true)
		if weak != script {
			atts = append(atts, attempt{byName("z3-new"), weak, "w", true}, attempt{byName("z3-nomb"), weak, "w", true})
		}
		if op := opaqueSpecs(script); op != script {
			atts = append(atts, attempt{byName("z3-new"), op, "o", true})
			if r2 := opaqueSpecs(assembleScriptRel(reg, o, false, false, true, true)); r2 != op {
				atts = append(atts, attempt{byName("z3-new"), r2, "ro", true}, attempt{byName("z3-new-nomb"), r2, "ro", true})
			}
		}
		rel := assembleScriptRel(reg, o, false, false, true, true)
		if rel != script && rel != weak {
			atts = append(atts, attempt{byName("z3-new"), rel, "r", true}, attempt{byName("z3-new-nomb"), rel, "r", true}, attempt{byName("z3-nomb"), rel, "r", true})
		}
	}
	ch := make(chan SolveResult, len(atts))
	pctx, pcancel := context.WithCancel(context.Background())
	defer pcancel()
	for _, a := range atts {
		go func(a attempt) {
			sr := runSolver(pctx, a.s, a.script, d.Dir, id+a.tag, d.Full)
			if a.weak && sr.Status == "sat" {
				sr.Status = "unknown" // a model of weakened hypotheses refutes nothing
			}
			if a.tag == "w" {
				sr.Solver += "+weakened"
			}
			if a.tag == "r" {
				sr.Solver += "+relevant"
			}
			if a.tag == "o" || a.tag == "ro" {
				sr.Solver += "+opaque"
			}
			ch <- sr
		}(a)
	}
	done := false
	for range atts {
		sr := <-ch
		if !done && finish(sr) {
			done = true
			pcancel()
		} else if done {
			r.All = append(r.All, sr)
		}
	}
	if !done {
		r.Status = "unknown"
		if !o.ExpectSat {
			d.noteUndecided(o.Func)
		}
		if o.ExpectSat {
			// could not show satisfiable nor unsatisfiable: not counted as vacuous
			r.Status = "proved"
			r.Res = SolveResult{Status: "unknown", Solver: "none"}
		} else if len(r.All) > 0 {
			r.Res = r.All[len(r.All)-1]
		}
	}
	d.cache.Store(id, r)
	return r
}

func (d *Discharger) count(solver string, secs float64) {
	d.mu.Lock()
	d.Stats[solver]++
	d.TimeBy[solver] += secs
	d.mu.Unlock()
}

// Model re-runs the failed obligation asking for a model.
func (d *Discharger) Model(reg *Registry, o *Obligation, solver string) string {
	for _, s := range solvers {
		if s.Name != solver {
			continue
		}
		script := assembleScript(reg, o, s.CVC5, true, false)
		sr := runSolver(context.Background(), s, script, d.Dir, "model_"+sanitize(trunc(o.Name, 60)), d.Full)
		return sr.Output
	}
	return ""
}

// DischargeVacuity: one cheap attempt to show the assumptions on a return path satisfiable.
// unsat = this return is unreachable; unknown = not shown either way.
func (d *Discharger) DischargeVacuity(reg *Registry, o *Obligation) *OblResult {
	r := &OblResult{O: o}
	script := assembleScript(reg, o, false, false, false)
	h := sha256.Sum256([]byte(script))
	id := fmt.Sprintf("%x", h[:8])
	sr := runSolver(context.Background(), solvers[0], script, d.Dir, id, 2)
	d.count(sr.Solver, sr.Seconds)
	r.Res = sr
	switch sr.Status {
	case "sat":
		r.Status = "proved"
	case "unsat":
		r.Status = "vacuous"
	default:
		r.Status = "proved" // not shown unreachable
		r.Res.Solver = "none"
	}
	return r
}

// quickSolve runs z3-new synchronously on a script given on stdin.
func quickSolve(script string, timeoutS int) string {
	ctx, cancel := context.WithTimeout(context.Background(), time.Duration(timeoutS+1)*time.Second)
	defer cancel()
	cmd := exec.CommandContext(ctx, "z3-new", "-t:400", fmt.Sprintf("-T:%d", timeoutS), "-in")
	cmd.Stdin = strings.NewReader(script)
	var out bytes.Buffer
	cmd.Stdout = &out
	_ = cmd.Run()
	return strings.TrimSpace(strings.SplitN(strings.TrimSpace(out.String()), "\n", 2)[0])
}

// DischargeBatch: one short attempt on a conjunction of goals.
func (d *Discharger) DischargeBatch(reg *Registry, o *Obligation) bool {
	script := assembleScript(reg, o, false, false, false)
	h := sha256.Sum256([]byte(script))
	id := fmt.Sprintf("b%x", h[:8])
	sr := runSolver(context.Background(), solvers[0], script, d.Dir, id, d.Quick)
	d.count("z3-new(batch)", sr.Seconds)
	return sr.Status == "unsat"
}

// stripQuantifiedDecls removes quantified axioms from a script (used only for
// feasibility pruning, where fewer assumptions are sound).
func stripQuantifiedDecls(script string) string {
	var b strings.Builder
	for _, ln := range strings.Split(script, "\n") {
		if strings.HasPrefix(ln, "(assert (forall") {
			continue
		}
		b.WriteString(ln)
		b.WriteByte('\n')
	}
	return b.String()
}

var defineFunRe = regexp.MustCompile(`^\(define-fun(-rec)? (sp_[A-Za-z0-9_]+) \(((?:\([^()]*(?:\([^()]*\))*[^()]*\) ?)*)\) `)

// opaqueSpecs turns spec-function definitions into uninterpreted declarations
// (a sound weakening: the definitions are dropped).
func opaqueSpecs(script string) string {
	var b strings.Builder
	changed := false
	for _, ln := range strings.Split(script, "\n") {
		if strings.HasPrefix(ln, "(define-fun sp_") || strings.HasPrefix(ln, "(define-fun-rec sp_") {
			if d := declOfDefine(ln); d != "" {
				b.WriteString(d)
				b.WriteByte('\n')
				changed = true
				continue
			}
		}
		b.WriteString(ln)
		b.WriteByte('\n')
	}
	if !changed {
		return script
	}
	return strings.TrimSuffix(b.String(), "\n")
}

// declOfDefine: "(define-fun f ((a S) (b T)) R body)" -> "(declare-fun f (S T) R)"
func declOfDefine(ln string) string {
	fs := splitSexp(ln[1 : len(ln)-1])
	if len(fs) < 5 {
		return ""
	}
	name := fs[1]
	params := fs[2]
	ret := fs[3]
	var sorts []string
	if params != "()" {
		for _, p := range splitSexp(params[1 : len(params)-1]) {
			pp := splitSexp(p[1 : len(p)-1])
			if len(pp) != 2 {
				return ""
			}
			sorts = append(sorts, pp[1])
		}
	}
	return fmt.Sprintf("(declare-fun %s (%s) %s)", name, strings.Join(sorts, " "), ret)
}

// crossCheck (thorough tier): an obligation proved by z3 5.1 is also given to
// z3 4.8.12 and cvc5 with a short budget. Agreement, no-answer and disagreement
// are counted for the evidence; a disagreement is printed.
func (d *Discharger) crossCheck(reg *Registry, o *Obligation, script, id string) {
	for _, name := range []string{"z3", "cvc5"} {
		var sv Solver
		for _, s := range solvers {
			if s.Name == name {
				sv = s
			}
		}
		sc := script
		if sv.CVC5 {
			sc = assembleScript(reg, o, true, false, false)
		}
		sr := runSolver(context.Background(), sv, sc, d.Dir, id+".x", 3)
		d.crossMu.Lock()
		if d.Cross == nil {
			d.Cross = map[string]int{}
		}
		switch sr.Status {
		case "unsat":
			d.Cross[name+":agree"]++
		case "sat":
			d.Cross[name+":DISAGREE"]++
			fmt.Printf("CROSS-CHECK: %s answers sat on %s, which z3-new proved\n", name, o.Name)
		default:
			d.Cross[name+":no-answer"]++
		}
		d.crossMu.Unlock()
	}
}
