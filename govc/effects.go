package main

// Effect inference: which heap location classes (and, for loops, which local
// cells) a function or loop may write. Used for call-site havoc, loop havoc,
// `modifies` checking and the ownership / determinism disciplines.

import (
	"fmt"
	"go/types"
	"sort"
	"strings"

	"golang.org/x/tools/go/ssa"
)

type WriteSet struct {
	Classes      map[string]bool
	Allocs       map[*ssa.Alloc]bool
	FreeVarWrite bool
	FreeVars     map[int]bool // indices of captured variables written directly
	Iters        []ssa.Value
	Sites        map[string][]string // class -> positions (for reports)
}

func newWS() *WriteSet {
	return &WriteSet{Classes: map[string]bool{}, Allocs: map[*ssa.Alloc]bool{}, Sites: map[string][]string{}}
}

type Effects struct {
	P      *Program
	C      *Contracts
	direct map[*ssa.Function]*WriteSet
	total  map[*ssa.Function]*WriteSet
	reads  map[*ssa.Function]map[string]bool
	calls  map[*ssa.Function][]*ssa.Function
	slotFns map[string][]*ssa.Function // slot name -> functions stored into it
	ghostW map[*ssa.Function]map[string]bool
	greads map[*ssa.Function]map[string]bool
}

func fieldClass(obj types.Type, field int) string {
	st := obj.Underlying().(*types.Struct)
	return "H_" + strings.TrimPrefix(structBaseName(obj), "S_") + "_" + sanitize(st.Field(field).Name())
}

func elemClass(el types.Type) string { return "E_" + sanitize(elemKey(el)) }

func mapClasses(mt *types.Map) (string, string) {
	k := sanitize(elemKey(mt.Key())) + "_" + sanitize(elemKey(mt.Elem()))
	return "MD_" + k, "MV_" + k
}

func NewEffects(p *Program, c *Contracts) *Effects {
	e := &Effects{P: p, C: c, direct: map[*ssa.Function]*WriteSet{}, total: map[*ssa.Function]*WriteSet{}, calls: map[*ssa.Function][]*ssa.Function{},
		slotFns: map[string][]*ssa.Function{}, ghostW: map[*ssa.Function]map[string]bool{}, reads: map[*ssa.Function]map[string]bool{}}
	for _, f := range p.All {
		if f.Blocks == nil {
			continue
		}
		e.direct[f] = e.scan(f, nil)
	}
	e.fixpoint()
	return e
}

// rootOf traces an address back to its root.
type addrRoot struct {
	kind  string // alloc, heap, global, freevar, unknown
	alloc *ssa.Alloc
	class string
	fv    *ssa.FreeVar
}

func (e *Effects) rootOf(addr ssa.Value, depth int) addrRoot {
	if fv, ok := addr.(*ssa.FreeVar); ok {
		return addrRoot{kind: "freevar", fv: fv}
	}
	if depth > 20 {
		return addrRoot{kind: "unknown"}
	}
	switch a := addr.(type) {
	case *ssa.Alloc:
		return addrRoot{kind: "alloc", alloc: a}
	case *ssa.Global:
		return addrRoot{kind: "global", class: "G_" + sanitize(globalName(a))}
	case *ssa.FreeVar:
		return addrRoot{kind: "freevar"}
	case *ssa.FieldAddr:
		inner := e.rootOf(a.X, depth+1)
		switch inner.kind {
		case "alloc", "global", "freevar":
			// if the alloc holds a pointer (we are looking at FieldAddr of a *loaded* pointer) this
			// case does not arise: loads are UnOps. Alloc here means a local struct.
			return inner
		case "interior":
			return inner
		}
		// base is a real pointer value
		obj := a.X.Type().Underlying().(*types.Pointer).Elem()
		return addrRoot{kind: "interior", class: fieldClass(obj, a.Field)}
	case *ssa.IndexAddr:
		switch xt := a.X.Type().Underlying().(type) {
		case *types.Slice:
			return addrRoot{kind: "interior", class: elemClass(xt.Elem())}
		case *types.Pointer:
			inner := e.rootOf(a.X, depth+1)
			if inner.kind == "alloc" {
				// local array object
				return inner
			}
			if inner.kind == "interior" || inner.kind == "global" || inner.kind == "freevar" {
				return inner
			}
			at := xt.Elem().Underlying().(*types.Array)
			return addrRoot{kind: "interior", class: elemClass(at.Elem())}
		}
	case *ssa.Phi:
		for _, ed := range a.Edges {
			r := e.rootOf(ed, depth+1)
			if r.kind != "unknown" {
				return r
			}
		}
	case *ssa.ChangeType:
		return e.rootOf(a.X, depth+1)
	}
	// a pointer value (param, load, call result): pointee written directly (*p = v)
	if pt, ok := addr.Type().Underlying().(*types.Pointer); ok {
		if stt, ok := pt.Elem().Underlying().(*types.Struct); ok {
			_ = stt
			return addrRoot{kind: "heapobj", class: "OBJ:" + structBaseName(pt.Elem())}
		}
		return addrRoot{kind: "interior", class: elemClass(pt.Elem())}
	}
	return addrRoot{kind: "unknown"}
}

// scan collects the direct writes of f (restricted to blocks in `only` if non-nil).
func (e *Effects) scan(f *ssa.Function, only map[*ssa.BasicBlock]bool) *WriteSet {
	ws := newWS()
	add := func(class string, ins ssa.Instruction) {
		ws.Classes[class] = true
		ws.Sites[class] = append(ws.Sites[class], e.P.Pos(instrPos(ins)))
	}
	for _, b := range f.Blocks {
		if only != nil && !only[b] {
			continue
		}
		for _, ins := range b.Instrs {
			switch ins := ins.(type) {
			case *ssa.Store:
				r := e.rootOf(ins.Addr, 0)
				switch r.kind {
				case "alloc":
					ws.Allocs[r.alloc] = true
				case "interior", "global":
					add(r.class, ins)
				case "heapobj":
					// whole-object store: all fields
					obj := ins.Addr.Type().Underlying().(*types.Pointer).Elem()
					if stt, ok := obj.Underlying().(*types.Struct); ok {
						for i := 0; i < stt.NumFields(); i++ {
							add(fieldClass(obj, i), ins)
						}
					}
				case "freevar":
					ws.FreeVarWrite = true
					if r.fv != nil {
						if ws.FreeVars == nil {
							ws.FreeVars = map[int]bool{}
						}
						for i, v := range f.FreeVars {
							if v == r.fv {
								ws.FreeVars[i] = true
							}
						}
					}
				default:
					add("UNKNOWN", ins)
				}
			case *ssa.MapUpdate:
				d, v := mapClasses(ins.Map.Type().Underlying().(*types.Map))
				add(d, ins)
				add(v, ins)
			case *ssa.Next:
				ws.Iters = append(ws.Iters, ins.Iter)
			case *ssa.Call:
				if bi, ok := ins.Common().Value.(*ssa.Builtin); ok {
					switch bi.Name() {
					case "append":
						if sl, ok := ins.Type().Underlying().(*types.Slice); ok {
							add(elemClass(sl.Elem()), ins)
						}
					case "copy":
						if sl, ok := ins.Common().Args[0].Type().Underlying().(*types.Slice); ok {
							add(elemClass(sl.Elem()), ins)
						}
					case "delete":
						d, v := mapClasses(ins.Common().Args[0].Type().Underlying().(*types.Map))
						add(d, ins)
						add(v, ins)
					}
				}
			}
		}
	}
	return ws
}

// callees of an instruction (over-approximated).
func (e *Effects) calleesOf(f *ssa.Function, ins ssa.Instruction) (fns []*ssa.Function, extra map[string]bool) {
	extra = map[string]bool{}
	var cc *ssa.CallCommon
	switch c := ins.(type) {
	case *ssa.Call:
		cc = c.Common()
	case *ssa.Defer:
		cc = c.Common()
	case *ssa.Go:
		// effects of a spawned goroutine are not attributed to the spawner
		// (interference is the subject of the ownership discipline, C12)
		return nil, extra
	case *ssa.MakeClosure:
		if fn, ok := c.Fn.(*ssa.Function); ok {
			return []*ssa.Function{fn}, extra
		}
		return nil, extra
	default:
		return nil, extra
	}
	if _, ok := cc.Value.(*ssa.Builtin); ok {
		return nil, extra
	}
	if cc.IsInvoke() {
		// implementations within the verified packages
		for _, g := range e.P.All {
			if g.Signature.Recv() != nil && g.Name() == cc.Method.Name() {
				if types.Implements(g.Signature.Recv().Type(), cc.Value.Type().Underlying().(*types.Interface)) {
					fns = append(fns, g)
				}
			}
		}
		key := ifaceKey(cc)
		if fc, ok := e.C.Funcs[key]; ok {
			for c := range e.declClasses(fc, nil) {
				extra[c] = true
			}
		} else if len(fns) == 0 {
			for _, a := range cc.Args {
				if sl, ok := a.Type().Underlying().(*types.Slice); ok {
					extra[elemClass(sl.Elem())] = true
				}
			}
		}
		return fns, extra
	}
	if sc := cc.StaticCallee(); sc != nil {
		if e.P.InVerifiedPkg(sc) && sc.Blocks != nil {
			if sc.Synthetic != "" && strings.HasPrefix(sc.Synthetic, "bound method") {
				return []*ssa.Function{e.boundTarget(sc)}, extra
			}
			return []*ssa.Function{sc}, extra
		}
		// extern
		if fc, ok := e.C.Funcs[externName(sc)]; ok {
			for c := range e.declClasses(fc, sc) {
				extra[c] = true
			}
			return nil, extra
		}
		for _, a := range cc.Args {
			if sl, ok := a.Type().Underlying().(*types.Slice); ok {
				extra[elemClass(sl.Elem())] = true
			}
		}
		return nil, extra
	}
	// dynamic call: slot by type name or all functions with an identical signature
	sig := cc.Signature()
	for _, g := range e.P.All {
		if g.Signature.Recv() == nil && types.Identical(g.Signature, sig) && e.addressTaken(g) {
			fns = append(fns, g)
		}
	}
	// bound methods (e.g. linePos.add passed as func(string,int))
	for _, g := range e.P.All {
		if g.Signature.Recv() != nil && e.methodValueTaken(g) {
			ms := types.NewSignatureType(nil, nil, nil, g.Signature.Params(), g.Signature.Results(), g.Signature.Variadic())
			if types.Identical(ms, sig) {
				fns = append(fns, g)
			}
		}
	}
	return fns, extra
}

func ifaceKey(cc *ssa.CallCommon) string {
	return "(" + types.TypeString(cc.Value.Type(), func(p *types.Package) string {
		if p.Path() == bclPath {
			return ""
		}
		return p.Name()
	}) + ")." + cc.Method.Name()
}

func (e *Effects) boundTarget(f *ssa.Function) *ssa.Function {
	for _, b := range f.Blocks {
		for _, ins := range b.Instrs {
			if c, ok := ins.(*ssa.Call); ok {
				if sc := c.Common().StaticCallee(); sc != nil {
					return sc
				}
			}
		}
	}
	return f
}

var addrTakenCache map[*ssa.Function]bool
var methValCache map[*ssa.Function]bool

func (e *Effects) buildTaken() {
	addrTakenCache = map[*ssa.Function]bool{}
	methValCache = map[*ssa.Function]bool{}
	for _, f := range e.P.All {
		for _, b := range f.Blocks {
			for _, ins := range b.Instrs {
				var ops []*ssa.Value
				ops = ins.Operands(ops)
				for i, op := range ops {
					if op == nil || *op == nil {
						continue
					}
					fn, ok := (*op).(*ssa.Function)
					if !ok {
						if mc, ok := (*op).(*ssa.MakeClosure); ok {
							if g, ok := mc.Fn.(*ssa.Function); ok && g.Synthetic != "" && strings.HasPrefix(g.Synthetic, "bound method") {
								methValCache[e.boundTarget(g)] = true
							}
						}
						continue
					}
					// callee position of a call is not "address taken"
					if c, ok := ins.(ssa.CallInstruction); ok && i == 0 && c.Common().Value == fn {
						continue
					}
					addrTakenCache[fn] = true
				}
				if mc, ok := ins.(*ssa.MakeClosure); ok {
					if g, ok := mc.Fn.(*ssa.Function); ok && g.Synthetic != "" && strings.HasPrefix(g.Synthetic, "bound method") {
						methValCache[e.boundTarget(g)] = true
					}
				}
			}
		}
	}
}

func (e *Effects) addressTaken(f *ssa.Function) bool {
	if addrTakenCache == nil {
		e.buildTaken()
	}
	return addrTakenCache[f]
}

func (e *Effects) methodValueTaken(f *ssa.Function) bool {
	if methValCache == nil {
		e.buildTaken()
	}
	return methValCache[f]
}

// declClasses converts a declared `modifies` list to classes (coarsened).
func (e *Effects) declClasses(fc *FuncContract, fn *ssa.Function) map[string]bool {
	out := map[string]bool{}
	for _, m := range fc.Modifies {
		switch ex := m.Expr.(type) {
		case *CSel:
			if id, ok := ex.X.(*CIdent); ok {
				if id.Name == "g" || id.Name == "ext" {
					out["g."+ex.Name] = true
					continue
				}
				// Type.field or param.field
				if t := e.typeByName(id.Name); t != nil {
					e.addFieldClass(out, t, ex.Name)
					continue
				}
				if fn != nil {
					for _, p := range fn.Params {
						if p.Name() == id.Name {
							t := p.Type()
							if pt, ok := t.Underlying().(*types.Pointer); ok {
								t = pt.Elem()
							}
							e.addFieldClass(out, t, ex.Name)
						}
					}
					continue
				}
			}
			// deeper paths: resolve type statically
			if fn != nil {
				if t := e.typeOfPath(fn, ex.X); t != nil {
					if pt, ok := t.Underlying().(*types.Pointer); ok {
						t = pt.Elem()
					}
					e.addFieldClass(out, t, ex.Name)
					continue
				}
			}
			out["UNRESOLVED:"+m.Src] = true
		case *CIndex:
			if t := e.sliceElemOf(fc, fn, ex.X); t != nil {
				out[elemClass(t)] = true
			} else {
				out["UNRESOLVED:"+m.Src] = true
			}
		case *CSlice:
			if t := e.sliceElemOf(fc, fn, ex.X); t != nil {
				out[elemClass(t)] = true
			} else {
				out["UNRESOLVED:"+m.Src] = true
			}
		case *CIdent:
			out[ex.Name] = true
		}
	}
	for _, g := range fc.Ghost {
		out["g."+g.Var] = true
	}
	return out
}

func (e *Effects) addFieldClass(out map[string]bool, t types.Type, field string) {
	stt, ok := t.Underlying().(*types.Struct)
	if !ok {
		return
	}
	for i := 0; i < stt.NumFields(); i++ {
		if stt.Field(i).Name() == field {
			out[fieldClass(t, i)] = true
			switch u := stt.Field(i).Type().Underlying().(type) {
			case *types.Slice:
				out[elemClass(u.Elem())] = true
			case *types.Map:
				d, v := mapClasses(u)
				out[d] = true
				out[v] = true
			}
		}
	}
}

func (e *Effects) typeByName(name string) types.Type {
	for _, short := range []string{"bcl", "main", "uvarint"} {
		if o := e.P.TPkgs[short].Scope().Lookup(name); o != nil {
			if tn, ok := o.(*types.TypeName); ok {
				return tn.Type()
			}
		}
	}
	return nil
}

func (e *Effects) typeOfPath(fn *ssa.Function, x CExpr) types.Type {
	switch ex := x.(type) {
	case *CIdent:
		for _, p := range fn.Params {
			if p.Name() == ex.Name {
				return p.Type()
			}
		}
		for _, fv := range fn.FreeVars {
			if fv.Name() == ex.Name {
				return fv.Type().(*types.Pointer).Elem()
			}
		}
	case *CSel:
		t := e.typeOfPath(fn, ex.X)
		if t == nil {
			return nil
		}
		if pt, ok := t.Underlying().(*types.Pointer); ok {
			t = pt.Elem()
		}
		if stt, ok := t.Underlying().(*types.Struct); ok {
			for i := 0; i < stt.NumFields(); i++ {
				if stt.Field(i).Name() == ex.Name {
					return stt.Field(i).Type()
				}
			}
		}
	}
	return nil
}

func (e *Effects) sliceElemOf(fc *FuncContract, fn *ssa.Function, x CExpr) types.Type {
	if fn != nil {
		if t := e.typeOfPath(fn, x); t != nil {
			if sl, ok := t.Underlying().(*types.Slice); ok {
				return sl.Elem()
			}
		}
	}
	if id, ok := x.(*CIdent); ok {
		for _, p := range fc.Params {
			if p.Name == id.Name && strings.HasPrefix(p.Type, "[]") {
				if p.Type == "[]byte" {
					return types.Typ[types.Byte]
				}
				if t := e.typeByName(p.Type[2:]); t != nil {
					return t
				}
				if o := types.Universe.Lookup(p.Type[2:]); o != nil {
					return o.Type()
				}
			}
		}
	}
	return nil
}

func (e *Effects) contractOf(f *ssa.Function) *FuncContract {
	if fc, ok := e.C.Funcs[e.P.FuncName(f)]; ok {
		return fc
	}
	if a := e.P.ClosureAlias(f); a != "" {
		if fc, ok := e.C.Funcs[a]; ok {
			return fc
		}
	}
	return nil
}

func (e *Effects) fixpoint() {
	for f, d := range e.direct {
		ws := newWS()
		for c := range d.Classes {
			ws.Classes[c] = true
		}
		ws.FreeVarWrite = d.FreeVarWrite
		e.total[f] = ws
		g := map[string]bool{}
		if fc := e.contractOf(f); fc != nil {
			for _, a := range fc.Ghost {
				g[a.Var] = true
			}
			for _, a := range fc.GhostInit {
				g[a.Var] = true
			}
		}
		e.directGhostEvents(f, g)
		e.ghostW[f] = g
	}
	changed := true
	for changed {
		changed = false
		for f := range e.direct {
			ws := e.total[f]
			for _, b := range f.Blocks {
				for _, ins := range b.Instrs {
					fns, extra := e.calleesOf(f, ins)
					for c := range extra {
						if !ws.Classes[c] {
							ws.Classes[c] = true
							changed = true
						}
					}
					for _, g := range fns {
						for c := range e.visibleWrites(g) {
							if !ws.Classes[c] {
								ws.Classes[c] = true
								changed = true
							}
						}
						for gv := range e.ghostW[g] {
							if !e.ghostW[f][gv] {
								e.ghostW[f][gv] = true
								changed = true
							}
						}
					}
				}
			}
		}
	}
}

// visibleWrites: what a caller of g must assume written: the declared
// `modifies` if g has one, else the inferred set.
func (e *Effects) visibleWrites(g *ssa.Function) map[string]bool {
	if fc := e.contractOf(g); fc != nil && fc.HasMod {
		return e.declClasses(fc, g)
	}
	if t, ok := e.total[g]; ok {
		return t.Classes
	}
	return nil
}

func (e *Effects) FuncWrites(f *ssa.Function) *WriteSet {
	if t, ok := e.total[f]; ok {
		return t
	}
	return newWS()
}

func (e *Effects) ghostWritesOf(f *ssa.Function, fc *FuncContract) map[string]bool {
	return e.ghostW[f]
}

// SlotWrites: union over the functions that may be stored in a slot.
func (e *Effects) SlotWrites(slot string) map[string]bool {
	out := map[string]bool{}
	for _, f := range e.P.All {
		if e.addressTaken(f) || e.methodValueTaken(f) {
			if t, ok := e.total[f]; ok {
				// only functions whose type could fit are relevant, but a superset is sound
				_ = t
			}
		}
	}
	// conservative: all address-taken functions with any signature
	for _, f := range e.P.All {
		if e.addressTaken(f) || e.methodValueTaken(f) {
			for c := range e.visibleWrites(f) {
				out[c] = true
			}
			for g := range e.ghostW[f] {
				out["g."+g] = true
			}
		}
	}
	return out
}

// LoopWrites computes the write set of one loop of f (including callees).
func (e *Effects) LoopWrites(f *ssa.Function, l *Loop) *WriteSet {
	ws := e.scan(f, l.Blocks)
	for _, b := range f.Blocks {
		if !l.Blocks[b] {
			continue
		}
		for _, ins := range b.Instrs {
			if _, ok := ins.(*ssa.MakeClosure); ok {
				continue
			}
			fns, extra := e.calleesOf(f, ins)
			for c := range extra {
				ws.Classes[c] = true
			}
			for _, g := range fns {
				for c := range e.visibleWrites(g) {
					ws.Classes[c] = true
				}
				for gv := range e.ghostW[g] {
					ws.Classes["g."+gv] = true
				}
				_ = g
			}
		}
	}
	// closures of f that write captured variables: the captured cells are allocs of f
	for _, b := range f.Blocks {
		for _, ins := range b.Instrs {
			mc, ok := ins.(*ssa.MakeClosure)
			if !ok {
				continue
			}
			g, ok := mc.Fn.(*ssa.Function)
			if !ok {
				continue
			}
			d := e.direct[g]
			if d == nil {
				continue
			}
			for idx := range d.FreeVars {
				if idx < len(mc.Bindings) {
					if al, ok := mc.Bindings[idx].(*ssa.Alloc); ok {
						ws.Allocs[al] = true
					} else {
						ws.FreeVarWrite = true
					}
				}
			}
		}
	}
	return ws
}

// CheckModifies verifies that the inferred write set of f is covered by its
// declared modifies clause. Returns the uncovered classes.
func (e *Effects) CheckModifies(f *ssa.Function, fc *FuncContract) []string {
	if !fc.HasMod {
		return nil
	}
	decl := e.declClasses(fc, f)
	var bad []string
	// heap classes are checked semantically (frame obligations at every return,
	// which know about freshly allocated objects); only ghost state is checked here
	for g := range e.ghostW[f] {
		if !decl["g."+g] {
			bad = append(bad, "g."+g)
		}
	}
	sort.Strings(bad)
	return bad
}

func (e *Effects) Describe(f *ssa.Function) string {
	var cs []string
	for c := range e.total[f].Classes {
		cs = append(cs, c)
	}
	sort.Strings(cs)
	return fmt.Sprintf("%s writes {%s}", e.P.FuncName(f), strings.Join(cs, ", "))
}

// OnlyWriter reports whether fn is the only function with a direct write to class.
func (e *Effects) OnlyWriter(class string, fn *ssa.Function) bool {
	found := false
	for f, d := range e.direct {
		if d.Classes[class] {
			if f != fn {
				return false
			}
			found = true
		}
	}
	return found
}

// GlobalsRead: package-level variables referenced by f or by functions it may call (transitively, static calls and closures).
func (e *Effects) GlobalsRead(f *ssa.Function) map[string]bool {
	if e.greads == nil {
		e.greads = map[*ssa.Function]map[string]bool{}
		for _, g := range e.P.All {
			m := map[string]bool{}
			for _, b := range g.Blocks {
				for _, ins := range b.Instrs {
					var ops []*ssa.Value
					for _, op := range ins.Operands(ops) {
						if op != nil && *op != nil {
							if gl, ok := (*op).(*ssa.Global); ok {
								m[gl.Name()] = true
							}
						}
					}
				}
			}
			e.greads[g] = m
		}
		changed := true
		for changed {
			changed = false
			for _, g := range e.P.All {
				for _, b := range g.Blocks {
					for _, ins := range b.Instrs {
						fns, _ := e.calleesOf(g, ins)
						for _, c := range fns {
							for n := range e.greads[c] {
								if !e.greads[g][n] {
									e.greads[g][n] = true
									changed = true
								}
							}
						}
					}
				}
			}
		}
	}
	return e.greads[f]
}

// directGhostEvents: ghost variables changed by the instructions of f itself:
// channel events (ev_*_<name>), goroutine starts (ev_go) and the ghost clauses
// of extern / interface-method contracts it calls.
func (e *Effects) directGhostEvents(f *ssa.Function, g map[string]bool) {
	ev := func(name string, kinds ...string) {
		if name == "" {
			return
		}
		for _, k := range kinds {
			if _, ok := e.C.Ghosts["ev_"+k+"_"+name]; ok {
				g["ev_"+k+"_"+name] = true
			}
		}
	}
	for _, b := range f.Blocks {
		for _, ins := range b.Instrs {
			switch ins := ins.(type) {
			case *ssa.Send:
				ev(chanVarName(ins.Chan), "send", "sent")
			case *ssa.UnOp:
				if ins.Op.String() == "<-" {
					ev(chanVarName(ins.X), "recv", "val", "bytes", "closed")
				}
			case *ssa.Select:
				for _, s := range ins.States {
					if s.Dir == types.SendOnly {
						ev(chanVarName(s.Chan), "send", "sent")
					} else {
						ev(chanVarName(s.Chan), "recv", "val", "bytes", "closed")
					}
				}
			case *ssa.Go:
				if _, ok := e.C.Ghosts["ev_go"]; ok {
					g["ev_go"] = true
				}
			}
			ci, ok := ins.(ssa.CallInstruction)
			if !ok {
				continue
			}
			if _, isGo := ins.(*ssa.Go); isGo {
				continue
			}
			cc := ci.Common()
			if bi, ok := cc.Value.(*ssa.Builtin); ok && bi.Name() == "close" && len(cc.Args) > 0 {
				ev(chanVarName(cc.Args[0]), "close")
				continue
			}
			var fc *FuncContract
			if cc.IsInvoke() {
				key := "(" + types.TypeString(cc.Value.Type(), func(p *types.Package) string {
					if p.Path() == bclPath {
						return ""
					}
					return p.Name()
				}) + ")." + cc.Method.Name()
				fc = e.C.Funcs[key]
			} else if sc := cc.StaticCallee(); sc != nil && sc.Blocks == nil {
				fc = e.C.Funcs[e.P.FuncName(sc)]
			}
			if fc != nil {
				for _, a := range fc.Ghost {
					g[a.Var] = true
				}
			}
		}
	}
}
