package main

import (
	"fmt"
	"go/token"
	"go/types"
	"os"
	"sort"
	"strings"

	"golang.org/x/tools/go/packages"
	"golang.org/x/tools/go/ssa"
	"golang.org/x/tools/go/ssa/ssautil"
)

type Program struct {
	Fset  *token.FileSet
	SSA   *ssa.Program
	Pkgs  map[string]*ssa.Package // by short name: bcl, main, uvarint
	TPkgs map[string]*types.Package
	Funcs map[string]*ssa.Function // qualified contract name -> function
	All   []*ssa.Function
	loops map[*ssa.Function][]*Loop
	RepoDir string
}

type Loop struct {
	Header  *ssa.BasicBlock
	Blocks  map[*ssa.BasicBlock]bool
	Ordinal int
}

const (
	bclPath     = "github.com/wkhere/bcl"
	mainPath    = "github.com/wkhere/bcl/cmd/bcl"
	uvarintPath = "github.com/mohae/uvarint"
)

func LoadProgram(dir string) (*Program, error) {
	cfg := &packages.Config{Mode: packages.LoadAllSyntax, Dir: dir, BuildFlags: []string{"-tags=verif"},
		Env: append(os.Environ(), "GOFLAGS=-mod=mod", "GOPROXY=off", "GOSUMDB=off", "GOTOOLCHAIN=local")}
	pkgs, err := packages.Load(cfg, bclPath, mainPath, uvarintPath)
	if err != nil {
		return nil, err
	}
	var errs []string
	packages.Visit(pkgs, nil, func(p *packages.Package) {
		for _, e := range p.Errors {
			errs = append(errs, e.Error())
		}
	})
	if len(errs) > 0 {
		return nil, fmt.Errorf("package load errors:\n%s", strings.Join(errs, "\n"))
	}
	prog, spkgs := ssautil.AllPackages(pkgs, ssa.NaiveForm|ssa.GlobalDebug)
	prog.Build()
	p := &Program{Fset: prog.Fset, SSA: prog, Pkgs: map[string]*ssa.Package{}, TPkgs: map[string]*types.Package{}, Funcs: map[string]*ssa.Function{},
		loops: map[*ssa.Function][]*Loop{}, RepoDir: dir}
	for _, sp := range spkgs {
		if sp == nil {
			continue
		}
		switch sp.Pkg.Path() {
		case bclPath:
			p.Pkgs["bcl"] = sp
		case mainPath:
			p.Pkgs["main"] = sp
		case uvarintPath:
			p.Pkgs["uvarint"] = sp
		}
	}
	for short, sp := range p.Pkgs {
		p.TPkgs[short] = sp.Pkg
	}
	// enumerate all functions of the verified packages (incl. methods, anon)
	seen := map[*ssa.Function]bool{}
	var add func(f *ssa.Function)
	add = func(f *ssa.Function) {
		if f == nil || seen[f] {
			return
		}
		seen[f] = true
		p.All = append(p.All, f)
		for _, af := range f.AnonFuncs {
			add(af)
		}
	}
	for _, short := range []string{"bcl", "main", "uvarint"} {
		sp := p.Pkgs[short]
		if sp == nil {
			return nil, fmt.Errorf("package %s not loaded", short)
		}
		var names []string
		for n := range sp.Members {
			names = append(names, n)
		}
		sort.Strings(names)
		for _, n := range names {
			switch m := sp.Members[n].(type) {
			case *ssa.Function:
				add(m)
			case *ssa.Type:
				for _, ptr := range []bool{false, true} {
					var tt types.Type = m.Type()
					if ptr {
						tt = types.NewPointer(tt)
					}
					ms := prog.MethodSets.MethodSet(tt)
					for i := 0; i < ms.Len(); i++ {
						mf := prog.MethodValue(ms.At(i))
						if mf != nil && mf.Synthetic == "" {
							add(mf)
						}
					}
				}
			}
		}
	}
	for _, f := range p.All {
		p.Funcs[p.FuncName(f)] = f
	}
	return p, nil
}

func (p *Program) shortPkg(f *ssa.Function) string {
	pk := f.Pkg
	if pk == nil && f.Parent() != nil {
		return p.shortPkg(f.Parent())
	}
	if pk == nil {
		return "?"
	}
	switch pk.Pkg.Path() {
	case bclPath:
		return ""
	case mainPath:
		return "main"
	case uvarintPath:
		return "uvarint"
	}
	return pk.Pkg.Path()
}

// FuncName gives the contract-language name of a function: `f`, `(*T).m`,
// `T.m`, `outer$1`; functions of packages other than bcl are prefixed `pkg.`.
func (p *Program) FuncName(f *ssa.Function) string {
	var n string
	if f.Pkg != nil {
		n = f.RelString(f.Pkg.Pkg)
	} else if f.Parent() != nil {
		n = f.RelString(p.rootPkg(f))
	} else {
		n = f.String()
	}
	if sp := p.shortPkg(f); sp != "" && !strings.Contains(sp, "/") {
		return sp + "." + n
	}
	return n
}

func (p *Program) rootPkg(f *ssa.Function) *types.Package {
	for f.Parent() != nil {
		f = f.Parent()
	}
	if f.Pkg != nil {
		return f.Pkg.Pkg
	}
	return nil
}

// Lookup resolves a contract function name, including the `outer/local`
// alias for the closure assigned to a local variable of outer.
func (p *Program) Lookup(name string) *ssa.Function {
	if f, ok := p.Funcs[name]; ok {
		return f
	}
	if i := strings.LastIndex(name, "/"); i > 0 {
		outer := p.Lookup(name[:i])
		if outer == nil {
			return nil
		}
		local := name[i+1:]
		return closureAssignedTo(outer, local)
	}
	return nil
}

func closureAssignedTo(outer *ssa.Function, local string) *ssa.Function {
	for _, b := range outer.Blocks {
		for _, ins := range b.Instrs {
			st, ok := ins.(*ssa.Store)
			if !ok {
				continue
			}
			al, ok := st.Addr.(*ssa.Alloc)
			if !ok || al.Comment != local {
				continue
			}
			switch v := st.Val.(type) {
			case *ssa.MakeClosure:
				return v.Fn.(*ssa.Function)
			case *ssa.Function:
				return v
			}
		}
	}
	return nil
}

// ClosureAlias returns "outer/local" if f is a closure assigned to a local.
func (p *Program) ClosureAlias(f *ssa.Function) string {
	outer := f.Parent()
	if outer == nil {
		return ""
	}
	for _, b := range outer.Blocks {
		for _, ins := range b.Instrs {
			st, ok := ins.(*ssa.Store)
			if !ok {
				continue
			}
			al, ok := st.Addr.(*ssa.Alloc)
			if !ok {
				continue
			}
			var fn *ssa.Function
			switch v := st.Val.(type) {
			case *ssa.MakeClosure:
				fn, _ = v.Fn.(*ssa.Function)
			case *ssa.Function:
				fn = v
			}
			if fn == f {
				return p.FuncName(outer) + "/" + al.Comment
			}
		}
	}
	return ""
}

func (p *Program) InVerifiedPkg(f *ssa.Function) bool {
	for f.Parent() != nil {
		f = f.Parent()
	}
	if f.Pkg == nil {
		return false
	}
	switch f.Pkg.Pkg.Path() {
	case bclPath, mainPath, uvarintPath:
		return true
	}
	return false
}

// Loops computes the natural loops of f, ordered by header block index.
func (p *Program) Loops(f *ssa.Function) []*Loop {
	if ls, ok := p.loops[f]; ok {
		return ls
	}
	byHeader := map[*ssa.BasicBlock]*Loop{}
	for _, b := range f.Blocks {
		for _, s := range b.Succs {
			if s.Dominates(b) {
				// back edge b -> s
				l := byHeader[s]
				if l == nil {
					l = &Loop{Header: s, Blocks: map[*ssa.BasicBlock]bool{s: true}}
					byHeader[s] = l
				}
				// collect blocks reaching b without passing s
				var stack []*ssa.BasicBlock
				if !l.Blocks[b] {
					l.Blocks[b] = true
					stack = append(stack, b)
				}
				for len(stack) > 0 {
					n := stack[len(stack)-1]
					stack = stack[:len(stack)-1]
					for _, pr := range n.Preds {
						if !l.Blocks[pr] {
							l.Blocks[pr] = true
							stack = append(stack, pr)
						}
					}
				}
			}
		}
	}
	var ls []*Loop
	for _, l := range byHeader {
		ls = append(ls, l)
	}
	sort.Slice(ls, func(i, j int) bool { return ls[i].Header.Index < ls[j].Header.Index })
	for i, l := range ls {
		l.Ordinal = i + 1
	}
	p.loops[f] = ls
	return ls
}

func (p *Program) Pos(pos token.Pos) string {
	if !pos.IsValid() {
		return "?"
	}
	ps := p.Fset.Position(pos)
	fn := ps.Filename
	if strings.HasPrefix(fn, p.RepoDir+"/") {
		fn = fn[len(p.RepoDir)+1:]
	} else if i := strings.Index(fn, "/pkg/mod/"); i >= 0 {
		fn = fn[i+9:]
	}
	return fmt.Sprintf("%s:%d", fn, ps.Line)
}

func instrPos(ins ssa.Instruction) token.Pos {
	if ins.Pos().IsValid() {
		return ins.Pos()
	}
	// fall back to operands / debug refs
	if v, ok := ins.(ssa.Value); ok {
		if refs := v.Referrers(); refs != nil {
			for _, r := range *refs {
				if d, ok := r.(*ssa.DebugRef); ok && d.Pos().IsValid() {
					return d.Pos()
				}
			}
		}
	}
	return token.NoPos
}
