package main

// Symbolic values, pointers, cells and path states.

import (
	"fmt"
	"go/constant"
	"go/types"
	"strings"

	"golang.org/x/tools/go/ssa"
)

type Value struct {
	T    string         // SMT term ("" for Go-level-only values)
	Typ  types.Type     // Go static type (may be nil for ghost/spec values)
	Sort string         // SMT sort when Typ is nil
	K    constant.Value // known constant
	Ptr  *Pointer
	Fn   *FuncVal
	Tup  []*Value
	It   *Iter
	Slot string // for function values loaded from a struct field: "Type.field"
}

type FuncVal struct {
	Fn       *ssa.Function
	Bindings []*Value // closure free variables (pointers to cells)
	Recv     *Value   // bound method receiver
}

type Iter struct {
	Kind string // "string", "map"
	X    *Value
	Pos  *Cell // current byte index (string)
	Ord  int
}

type Cell struct {
	Name string
	Typ  types.Type
	id   int
}

type PKind int

const (
	PCell PKind = iota
	PObj        // whole heap object (struct) identified by Ref
	PField      // field of heap struct object
	PElem       // element of backing array
	PGlobal
)

type Step struct {
	IsIdx  bool
	Field  int
	Idx    string
	Parent types.Type // aggregate type being stepped into
	Typ    types.Type // type after the step
}

type Pointer struct {
	Kind  PKind
	Cell  *Cell
	Ref   string     // object ref (PObj/PField) / array ref (PElem)
	Obj   types.Type // struct type of the object (PObj/PField)
	Field int
	Idx   string // absolute index (PElem)
	Glob  string
	Path  []Step
	Typ   types.Type // type of the location pointed to
}

func (p *Pointer) withStep(s Step) *Pointer {
	q := *p
	q.Path = append(append([]Step{}, p.Path...), s)
	q.Typ = s.Typ
	return &q
}

// Item: one element of a path's fact list.
type Item struct {
	Def  string // name if definition
	Sort string
	Term string // definition body or asserted formula
}

type Defer struct {
	Call *ssa.CallCommon
	Args []*Value
	Fn   *Value
	Pos  ssa.Instruction
}

type Frame struct {
	Fn       *ssa.Function
	Block    *ssa.BasicBlock
	Prev     *ssa.BasicBlock
	Idx      int
	Regs     map[ssa.Value]*Value
	Allocs   map[*ssa.Alloc]*Pointer
	Defers   []*Defer
	Open     []*Loop
	CallInst ssa.Instruction // in caller: the call instruction being executed (for inlined frames)
	Bindings []*Value
	Params   map[string]*Value // entry values by name
	Depth    int
	IsDefer  bool // frame runs a deferred call: result discarded, continue RunDefers
	AllocSeq []*ssa.Alloc // order of executed allocs (for name lookup)
}

type State struct {
	items  []Item
	cells  map[*Cell]*Value
	heaps  map[string]string // heap name -> current term
	hsort  map[string]string
	ghost  map[string]*Value
	frames []*Frame
	trace  []string
	callNo map[string]int // per-callee call ordinal along this path (top-level frame)
	dead   bool
	extra  map[string]*Value // misc named snapshots (e.g. loop-entry)
	heads  map[string]*State  // state at the head of the current iteration, per loop
	facts  map[string]bool    // atoms assumed on this path (exact term text -> truth value)
	eqs    map[string]string  // term -> integer literal it is known to equal
	shared []*Cell            // variables written by goroutines started on this path
	snaps  map[string]*Value  // named snapshots taken at call sites on this path
}

func (s *State) top() *Frame { return s.frames[len(s.frames)-1] }

func (s *State) clone() *State {
	n := &State{
		items:  s.items[:len(s.items):len(s.items)],
		cells:  make(map[*Cell]*Value, len(s.cells)),
		heaps:  make(map[string]string, len(s.heaps)),
		hsort:  s.hsort, // shared: sorts never change per name
		ghost:  make(map[string]*Value, len(s.ghost)),
		trace:  s.trace[:len(s.trace):len(s.trace)],
		callNo: make(map[string]int, len(s.callNo)),
		extra:  s.extra,
		heads:  s.heads,
		shared: s.shared,
		snaps:  s.snaps,
		facts:  make(map[string]bool, len(s.facts)),
		eqs:    make(map[string]string, len(s.eqs)),
	}
	for k, v := range s.facts {
		n.facts[k] = v
	}
	for k, v := range s.eqs {
		n.eqs[k] = v
	}
	for k, v := range s.cells {
		n.cells[k] = v
	}
	for k, v := range s.heaps {
		n.heaps[k] = v
	}
	for k, v := range s.ghost {
		n.ghost[k] = v
	}
	for k, v := range s.callNo {
		n.callNo[k] = v
	}
	for _, f := range s.frames {
		nf := *f
		nf.Regs = make(map[ssa.Value]*Value, len(f.Regs))
		for k, v := range f.Regs {
			nf.Regs[k] = v
		}
		nf.Allocs = make(map[*ssa.Alloc]*Pointer, len(f.Allocs))
		for k, v := range f.Allocs {
			nf.Allocs[k] = v
		}
		nf.Defers = f.Defers[:len(f.Defers):len(f.Defers)]
		nf.Open = f.Open[:len(f.Open):len(f.Open)]
		nf.AllocSeq = f.AllocSeq[:len(f.AllocSeq):len(f.AllocSeq)]
		n.frames = append(n.frames, &nf)
	}
	return n
}

// snapshot returns a light copy sufficient for evaluating old(): heaps, ghost, cells.
func (s *State) snapshot() *State {
	n := &State{items: nil, cells: make(map[*Cell]*Value, len(s.cells)), heaps: make(map[string]string, len(s.heaps)), hsort: s.hsort, ghost: make(map[string]*Value, len(s.ghost)), frames: s.frames}
	for k, v := range s.cells {
		n.cells[k] = v
	}
	for k, v := range s.heaps {
		n.heaps[k] = v
	}
	for k, v := range s.ghost {
		n.ghost[k] = v
	}
	return n
}

func (s *State) assume(t string) {
	if t == "true" || t == "" {
		return
	}
	s.items = append(s.items, Item{Term: t})
	s.learn(t, true)
}

// learn records simple atoms for syntactic branch folding.
func (s *State) learn(t string, val bool) {
	if s.facts == nil {
		s.facts = map[string]bool{}
		s.eqs = map[string]string{}
	}
	if strings.HasPrefix(t, "(not ") && strings.HasSuffix(t, ")") {
		s.learn(t[5:len(t)-1], !val)
		return
	}
	if val && strings.HasPrefix(t, "(and ") {
		for _, p := range splitSexp(t[5 : len(t)-1]) {
			s.learn(p, true)
		}
		return
	}
	if !val && strings.HasPrefix(t, "(or ") {
		for _, p := range splitSexp(t[4 : len(t)-1]) {
			s.learn(p, false)
		}
		return
	}
	if len(t) < 400 {
		s.facts[t] = val
	}
	if val && strings.HasPrefix(t, "(= ") {
		ps := splitSexp(t[3 : len(t)-1])
		if len(ps) == 2 {
			if _, ok := termIsIntLit(ps[1]); ok {
				s.eqs[ps[0]] = ps[1]
			} else if _, ok := termIsIntLit(ps[0]); ok {
				s.eqs[ps[1]] = ps[0]
			}
		}
	}
}

// known folds a condition using the recorded atoms; ok=false if undetermined.
func (s *State) known(t string) (val bool, ok bool) {
	if t == "true" {
		return true, true
	}
	if t == "false" {
		return false, true
	}
	if strings.HasPrefix(t, "(not ") && strings.HasSuffix(t, ")") {
		v, ok := s.known(t[5 : len(t)-1])
		return !v, ok
	}
	if v, ok := s.facts[t]; ok {
		return v, true
	}
	if strings.HasPrefix(t, "(= ") {
		ps := splitSexp(t[3 : len(t)-1])
		if len(ps) == 2 {
			a, b := ps[0], ps[1]
			if _, isLit := termIsIntLit(a); isLit {
				a, b = b, a
			}
			if lit, isLit := termIsIntLit(b); isLit {
				if k, have := s.eqs[a]; have {
					kv, _ := termIsIntLit(k)
					return kv == lit, true
				}
			}
		}
	}
	if strings.HasPrefix(t, "(and ") {
		all := true
		for _, p := range splitSexp(t[5 : len(t)-1]) {
			v, ok := s.known(p)
			if ok && !v {
				return false, true
			}
			if !ok {
				all = false
			}
		}
		if all {
			return true, true
		}
	}
	if strings.HasPrefix(t, "(or ") {
		all := true
		for _, p := range splitSexp(t[4 : len(t)-1]) {
			v, ok := s.known(p)
			if ok && v {
				return true, true
			}
			if !ok {
				all = false
			}
		}
		if all {
			return false, true
		}
	}
	return false, false
}

func (s *State) note(f string, a ...any) {
	s.trace = append(s.trace, fmt.Sprintf(f, a...))
}

func kInt(v int64, t types.Type) *Value {
	return &Value{Typ: t, K: constant.MakeInt64(v)}
}

func (v *Value) isConstBool() (bool, bool) {
	if v.K != nil && v.K.Kind() == constant.Bool {
		return constant.BoolVal(v.K), true
	}
	if v.T == "true" {
		return true, true
	}
	if v.T == "false" {
		return false, true
	}
	return false, false
}

func (v *Value) constInt() (int64, bool) {
	if v.K != nil && v.K.Kind() == constant.Int {
		if i, ok := constant.Int64Val(v.K); ok {
			return i, true
		}
	}
	return 0, false
}

func termIsIntLit(t string) (int64, bool) {
	if t == "" {
		return 0, false
	}
	var v int64
	if strings.HasPrefix(t, "(- ") && strings.HasSuffix(t, ")") {
		if _, err := fmt.Sscanf(t, "(- %d)", &v); err == nil {
			return -v, true
		}
		return 0, false
	}
	for _, c := range t {
		if c < '0' || c > '9' {
			return 0, false
		}
	}
	if _, err := fmt.Sscanf(t, "%d", &v); err == nil {
		return v, true
	}
	return 0, false
}
