package main

// Calls: builtins, inlining, calls by contract, externs, slots.

import (
	"sort"
	"fmt"
	"go/constant"
	"go/types"
	"strings"

	"golang.org/x/tools/go/ssa"
)

func (x *Exec) callArgs(st *State, c *ssa.CallCommon) []*Value {
	var args []*Value
	for _, a := range c.Args {
		args = append(args, x.get(st, a))
	}
	return args
}

func (x *Exec) setResult(fr *Frame, pos ssa.Instruction, v *Value) {
	if val, ok := pos.(ssa.Value); ok {
		fr.Regs[val] = v
	}
}

// call executes a call. It returns true if an inlined frame was pushed (the
// main loop then continues inside the callee).
func (x *Exec) call(st *State, fr *Frame, c *ssa.CallCommon, args []*Value, fnv *Value, pos ssa.Instruction, isDefer bool) bool {
	// builtins
	if b, ok := c.Value.(*ssa.Builtin); ok {
		if x.spec > 0 && b.Name() != "len" && b.Name() != "cap" {
			panic(specAbort{})
		}
		x.setResult(fr, pos, x.builtin(st, b, c, args, pos))
		return false
	}
	if c.IsInvoke() {
		if x.spec > 0 {
			panic(specAbort{})
		}
		recv := fnv
		x.invoke(st, fr, c, recv, args, pos)
		return false
	}
	var callee *ssa.Function
	var bindings []*Value
	if fnv != nil && fnv.Fn != nil {
		callee = fnv.Fn.Fn
		bindings = fnv.Fn.Bindings
	} else if sc := c.StaticCallee(); sc != nil {
		callee = sc
	}
	if callee == nil {
		if x.spec > 0 {
			panic(specAbort{})
		}
		// dynamic call through a function value: slot contract
		x.slotCall(st, fr, c, fnv, args, pos)
		return false
	}
	if callee.Synthetic != "" && strings.HasPrefix(callee.Synthetic, "bound method") {
		// bound method closure: the receiver is the single binding
		if len(bindings) == 1 {
			args = append([]*Value{bindings[0]}, args...)
			bindings = nil
		}
		callee = x.boundTarget(callee)
	}
	name := x.P.FuncName(callee)
	if alias := x.P.ClosureAlias(callee); alias != "" {
		if _, ok := x.C.Funcs[alias]; ok {
			name = alias
		}
	}
	if fc, ok := x.C.Funcs[name]; ok && !x.forceInline(fc, callee) {
		if x.spec > 0 && !(fc.HasMod && len(fc.Modifies) == 0 && len(fc.Ghost) == 0) {
			panic(specAbort{})
		}
		x.callByContract(st, fr, callee, fc, name, args, bindings, pos)
		return false
	}
	if x.spec > 0 {
		panic(specAbort{})
	}
	if x.P.InVerifiedPkg(callee) && callee.Blocks != nil {
		x.inline(st, fr, callee, args, bindings, pos, isDefer)
		return true
	}
	// external function
	full := externName(callee)
	if fc, ok := x.C.Funcs[full]; ok {
		x.callByContract(st, fr, callee, fc, full, args, bindings, pos)
		return false
	}
	x.defaultExtern(st, fr, callee, full, args, pos)
	return false
}

func (x *Exec) forceInline(fc *FuncContract, callee *ssa.Function) bool {
	return fc.Inline && callee.Blocks != nil
}

func (x *Exec) boundTarget(f *ssa.Function) *ssa.Function {
	// synthetic bound-method wrapper `T.m$bound`: find the call inside
	for _, b := range f.Blocks {
		for _, ins := range b.Instrs {
			if c, ok := ins.(*ssa.Call); ok {
				if sc := c.Common().StaticCallee(); sc != nil {
					return sc
				}
			}
		}
	}
	return f
}

func externName(f *ssa.Function) string {
	if f.Pkg != nil {
		return f.Pkg.Pkg.Path() + "." + f.RelString(f.Pkg.Pkg)
	}
	if f.Signature.Recv() != nil {
		// method of a type in a package whose SSA was not built
		return f.String()
	}
	return f.String()
}

// ---------------------------------------------------------------------------
// inlining

func (x *Exec) inline(st *State, fr *Frame, callee *ssa.Function, args []*Value, bindings []*Value, pos ssa.Instruction, isDefer bool) {
	depth := 0
	for _, f := range st.frames {
		if f.Fn == callee {
			x.limit("recursive call to %s without a contract", callee.Name())
		}
		depth++
	}
	if depth > x.inlineDepthMax+1 {
		x.limit("inline depth exceeded at %s (give %s a contract)", x.P.Pos(instrPos(pos)), x.P.FuncName(callee))
	}
	nf := &Frame{Fn: callee, Regs: map[ssa.Value]*Value{}, Allocs: map[*ssa.Alloc]*Pointer{}, Params: map[string]*Value{}, CallInst: pos, Bindings: bindings, Depth: depth, IsDefer: isDefer}
	for i, p := range callee.Params {
		if i < len(args) {
			nf.Regs[p] = args[i]
			nf.Params[p.Name()] = args[i]
		}
	}
	nf.Block = callee.Blocks[0]
	// call-site assertions of the caller's contract about the call to an inlined helper itself
	if x.fc != nil && fr.Fn == x.fn && len(st.frames) == 1 && len(x.fc.Asserts) > 0 {
		short := shortCallee(x.P.FuncName(callee))
		ord := x.siteOrdinal(fr.Fn, pos, short)
		for _, a := range x.fc.Asserts {
			if a.At == fmt.Sprintf("%s#%d", short, ord) {
				cenv := x.envFor(st, x.entry, fr)
				cenv.prev = x.innermostHead(st, st.frames[0])
				for k, v := range st.snaps {
					cenv.vars["$"+k] = v
				}
				for k, v := range nf.Params {
					cenv.vars["$"+k] = v
				}
				if !x.snapsReady(st, a) {
					continue
				}
				x.fired[a] = true
				x.oblige(st, "assert@"+short+fmt.Sprintf("#%d", ord), a.Label, a.Props, x.evalBool(cenv, a.Expr), x.P.Pos(instrPos(pos)), a.Src)
			}
		}
	}
	st.frames = append(st.frames, nf)
}

// ---------------------------------------------------------------------------
// calls by contract

func (x *Exec) callOrdinal(st *State, name string) int {
	st.callNo[name]++
	return st.callNo[name]
}

func (x *Exec) callByContract(st *State, fr *Frame, callee *ssa.Function, fc *FuncContract, name string, args []*Value, bindings []*Value, pos ssa.Instruction) {
	where := x.P.Pos(instrPos(pos))
	short := shortCallee(name)
	ord := x.siteOrdinal(fr.Fn, pos, short)
	x.batchCtr++
	x.batch = x.batchCtr
	defer func() { x.batch = 0 }()
	// bind formals
	env := &Env{x: x, st: st, old: st, vars: map[string]*Value{}, pkg: x.pkgOfContract(fc, callee)}
	var paramNames []string
	if callee != nil && len(callee.Params) > 0 {
		for _, p := range callee.Params {
			paramNames = append(paramNames, p.Name())
		}
	} else {
		for _, p := range fc.Params {
			paramNames = append(paramNames, p.Name)
		}
	}
	for i, pn := range paramNames {
		if i < len(args) {
			env.vars[pn] = args[i]
		}
	}
	// extern contracts name their parameters themselves
	if len(fc.Params) > 0 {
		for i, p := range fc.Params {
			if i < len(args) {
				env.vars[p.Name] = args[i]
			}
		}
	}
	// closures: captured variables by name
	if callee != nil {
		for i, fv := range callee.FreeVars {
			if i < len(bindings) && bindings[i].Ptr != nil && bindings[i].Ptr.Kind == PCell {
				if cv, ok := st.cells[bindings[i].Ptr.Cell]; ok {
					env.vars[fv.Name()] = cv
				}
			} else if i < len(bindings) && bindings[i].Ptr != nil {
				env.vars[fv.Name()] = x.load(st, bindings[i].Ptr)
			}
		}
	}
	// renamed parameters / captured variables: the contract's old names denote them too
	if callee != nil {
		for old, al := range fc.LocalAlias {
			if _, bound := env.vars[old]; !bound {
				if nn := localByOrdinal(callee, al); nn != "" {
					if v, ok := env.vars[nn]; ok {
						env.vars[old] = v
					}
				}
			}
		}
	}
	// implicit precondition: pointer params non-nil
	if callee != nil && !fc.Extern {
		for i, p := range callee.Params {
			if _, ok := p.Type().Underlying().(*types.Pointer); ok && i < len(args) {
				x.oblige(st, "pre@"+short+fmt.Sprintf("#%d", ord), "nonnil_"+p.Name(), x.safetyProps(), not(eq(x.refTerm(args[i]), "0")), where, p.Name()+" != nil")
			}
		}
	}
	// invariants of the callee's parameter types
	var invs []boundInv
	if callee != nil && !fc.Extern {
		for _, inv := range x.C.Invs {
			if fc.NoInv[inv.Name] || fc.NoInv["*"] {
				continue
			}
			for i, p := range callee.Params {
				if x.typeMatches(p.Type(), inv.Type) && i < len(args) {
					invs = append(invs, boundInv{inv: inv, Binder: inv.Binder, val: args[i]})
					break
				}
			}
		}
	}
	for _, bi := range invs {
		if bi.inv.History || bi.inv.Owned {
			continue
		}
		g := x.evalBool(env.with(bi.Binder, bi.val), bi.inv.Expr)
		x.oblige(st, "pre@"+short+fmt.Sprintf("#%d", ord), "inv_"+bi.inv.Name, bi.inv.Props, g, where, bi.inv.Src)
	}
	for i, r := range fc.Requires {
		label := r.Label
		if label == "" {
			label = fmt.Sprint(i + 1)
		}
		g := x.evalBool(env, r.Expr)
		props := r.Props
		if len(props) == 0 {
			props = x.safetyProps()
		}
		// every call-site precondition is also checked by the run that verifies every function (C06)
		if !contains(props, "C06") {
			props = append(append([]string{}, props...), "C06")
		}
		x.oblige(st, "pre@"+short+fmt.Sprintf("#%d", ord), label, props, g, where, r.Src)
	}
	// named snapshots of the caller's contract taken at this call site
	if x.fc != nil && len(x.fc.Snapshots) > 0 && len(st.frames) <= 2 && st.frames[0].Fn == x.fn {
		site := fmt.Sprintf("%s#%d", short, ord)
		site2 := site
		if fr.Fn != x.fn {
			via := shortCallee(x.P.FuncName(fr.Fn))
			site2 = via + "." + site
			if ci := fr.CallInst; ci != nil {
				site = fmt.Sprintf("%s#%d.%s", via, x.siteOrdinal(st.frames[0].Fn, ci, via), site)
			} else {
				site = site2
			}
		}
		for _, sn := range x.fc.Snapshots {
			if sn.At == site || sn.At == site2 {
				cenv := x.envFor(st, x.entry, st.frames[0])
				v := x.eval(cenv, sn.Expr)
				ns := map[string]*Value{}
				for k, vv := range st.snaps {
					ns[k] = vv
				}
				ns[sn.Label] = v
				st.snaps = ns
			}
		}
	}
	// call-site assertions of the caller's contract
	if x.fc != nil && fr.Fn == x.fn {
		for _, a := range x.fc.Asserts {
			if a.At == fmt.Sprintf("%s#%d", short, ord) || a.At == short {
				cenv := x.envFor(st, x.entry, fr)
				cenv.prev = x.innermostHead(st, st.frames[0])
				for k, v := range st.snaps {
					cenv.vars["$"+k] = v
				}
				for k, v := range env.vars {
					cenv.vars["$"+k] = v
				}
				if !x.snapsReady(st, a) {
					continue
				}
				x.fired[a] = true
				x.oblige(st, "assert@"+short+fmt.Sprintf("#%d", ord), a.Label, a.Props, x.evalBool(cenv, a.Expr), where, a.Src)
			}
		}
	}
	// A call site `callee#n` that has moved, as a whole, into a contract-less helper (the function
	// itself no longer calls the callee, and has no loop): the n-th call along the path stands for it.
	if x.fc != nil && len(x.fc.Asserts) > 0 && len(st.frames) >= 1 && st.frames[0].Fn == x.fn {
		st.callNo["dyn:"+short]++
		if fr.Fn != x.fn && !hasStaticSite(x.fn, short) && len(x.P.Loops(x.fn)) == 0 {
			dyn := st.callNo["dyn:"+short]
			for _, a := range x.fc.Asserts {
				if a.At == fmt.Sprintf("%s#%d", short, dyn) {
					cenv := x.envFor(st, x.entry, st.frames[0])
					for k, v := range st.snaps {
						cenv.vars["$"+k] = v
					}
					for k, v := range env.vars {
						cenv.vars["$"+k] = v
					}
					if !x.snapsReady(st, a) {
						continue
					}
					x.fired[a] = true
					x.oblige(st, "assert@"+short+fmt.Sprintf("#%d", dyn), a.Label, a.Props, x.evalBool(cenv, a.Expr), where, a.Src)
				}
			}
		}
	}
	// ... and assertions about calls made by a contract-less helper inlined into it: `at helper.callee#n`
	// (the helper may itself have been reached through further contract-less helpers; the form with the
	// ordinal of the helper call, `helper#k.callee#n`, needs the helper to be called by the function itself)
	if x.fc != nil && fr.Fn != x.fn && len(st.frames) >= 2 && st.frames[0].Fn == x.fn {
		via := shortCallee(x.P.FuncName(fr.Fn))
		specific := ""
		if ci := fr.CallInst; ci != nil && len(st.frames) == 2 {
			specific = fmt.Sprintf("%s#%d.%s#%d", via, x.siteOrdinal(st.frames[0].Fn, ci, via), short, ord)
		}
		for _, a := range x.fc.Asserts {
			if a.At == fmt.Sprintf("%s.%s#%d", via, short, ord) || (specific != "" && a.At == specific) {
				cenv := x.envFor(st, x.entry, st.frames[0])
				cenv.prev = x.innermostHead(st, st.frames[0])
				for k, v := range st.snaps {
					cenv.vars["$"+k] = v
				}
				for k, v := range env.vars {
					cenv.vars["$"+k] = v
				}
				if !x.snapsReady(st, a) {
					continue
				}
				x.fired[a] = true
				x.oblige(st, "assert@"+via+"."+short+fmt.Sprintf("#%d", ord), a.Label, a.Props, x.evalBool(cenv, a.Expr), where, a.Src)
			}
		}
	}
	if fc.NoReturn {
		st.dead = true
		return
	}
	x.batch = 0
	old := st.snapshot()
	// frame: havoc what the callee may modify
	x.nextBefore = x.nextTerm(st)
	nbCall := x.nextBefore
	x.bumpNext(st)
	x.havocForCall(st, env, callee, fc, name)
	x.nextBefore = ""
	// results
	var res []*Value
	var sig *types.Signature
	if callee != nil {
		sig = callee.Signature
	}
	if sig != nil {
		for i := 0; i < sig.Results().Len(); i++ {
			rv := x.fresh("ret_"+short, sig.Results().At(i).Type())
			x.assumeTypeInv(st, rv)
			res = append(res, rv)
		}
	}
	post := &Env{x: x, st: st, old: old, vars: env.vars, pkg: env.pkg, newBase: nbCall}
	post = post.withResultsSig(res, sig, fc)
	// the callee's ghost effects come first: its postconditions and the invariants speak about the final ghost state
	// (the same order as at the callee's own return)
	x.applyGhost(st, post, fc)
	for _, e := range fc.Ensures {
		if snapshotRefs(fc, e) > 0 {
			continue // speaks about a snapshot inside the callee: not usable at a call site
		}
		st.assume(x.evalBool(post, e.Expr))
	}
	for _, bi := range invs {
		st.assume(x.evalBool(post.with(bi.Binder, bi.val), bi.inv.Expr))
	}
	if sig != nil {
		x.setResult(fr, pos, x.tuple(res, sig.Results()))
	}
	// snapshots taken just after this call (`snapshot name: at after callee#n: expr`, may mention result)
	if x.fc != nil && len(x.fc.Snapshots) > 0 && fr.Fn == x.fn {
		site := fmt.Sprintf("after %s#%d", short, ord)
		for _, sn := range x.fc.Snapshots {
			if sn.At == site {
				cenv := x.envFor(st, x.entry, fr).withResultsSig(res, sig, fc)
				v := x.eval(cenv, sn.Expr)
				ns := map[string]*Value{}
				for k, vv := range st.snaps {
					ns[k] = vv
				}
				ns[sn.Label] = v
				st.snaps = ns
			}
		}
	}
}

func shortCallee(name string) string {
	if i := strings.LastIndex(name, "/"); i >= 0 && !strings.Contains(name[i:], ".") {
		return name[i+1:]
	}
	if i := strings.LastIndex(name, "."); i >= 0 {
		return strings.Trim(name[i+1:], "()*")
	}
	return name
}

var siteCache = map[*ssa.Function]map[ssa.Instruction]int{}

// siteOrdinal: the n-th call (in block order) to a callee with this short name within fn.
func (x *Exec) siteOrdinal(fn *ssa.Function, pos ssa.Instruction, short string) int {
	m := siteCache[fn]
	if m == nil {
		m = map[ssa.Instruction]int{}
		counts := map[string]int{}
		type site struct {
			ins ssa.Instruction
			cc  *ssa.CallCommon
			pos int
			seq int
		}
		var sites []site
		seq := 0
		for _, b := range fn.Blocks {
			for _, ins := range b.Instrs {
				var cc *ssa.CallCommon
				switch c := ins.(type) {
				case *ssa.Call:
					cc = c.Common()
				case *ssa.Defer:
					cc = c.Common()
				case *ssa.Go:
					cc = c.Common()
				}
				if cc == nil {
					continue
				}
				seq++
				sites = append(sites, site{ins, cc, int(instrPos(ins)), seq})
			}
		}
		// the n-th call to a callee is counted in source order (stable under block reordering)
		sort.SliceStable(sites, func(i, j int) bool {
			if sites[i].pos != sites[j].pos && sites[i].pos > 0 && sites[j].pos > 0 {
				return sites[i].pos < sites[j].pos
			}
			return sites[i].seq < sites[j].seq
		})
		for _, s := range sites {
			n := calleeShortName(s.cc)
			counts[n]++
			m[s.ins] = counts[n]
		}
		siteCache[fn] = m
	}
	return m[pos]
}

// snapsReady: an assertion that mentions a snapshot speaks about the paths on which it was taken.
func (x *Exec) snapsReady(st *State, a *Clause) bool {
	if x.fc == nil || len(x.fc.Snapshots) == 0 {
		return true
	}
	for _, m := range snapRefRe.FindAllStringSubmatch(a.Src, -1) {
		if _, ok := st.snaps[m[1]]; !ok && isSnapshotName(x.fc, m[1]) {
			return false
		}
	}
	return true
}

func hasStaticSite(fn *ssa.Function, short string) bool {
	for _, b := range fn.Blocks {
		for _, ins := range b.Instrs {
			if c, ok := ins.(ssa.CallInstruction); ok && calleeShortName(c.Common()) == short {
				return true
			}
		}
	}
	return false
}

func calleeShortName(cc *ssa.CallCommon) string {
	if cc.IsInvoke() {
		return cc.Method.Name()
	}
	if sc := cc.StaticCallee(); sc != nil {
		return sc.Name()
	}
	switch v := cc.Value.(type) {
	case *ssa.UnOp:
		if al, ok := v.X.(*ssa.Alloc); ok {
			return al.Comment
		}
	case *ssa.Builtin:
		return v.Name()
	}
	return cc.Value.Name()
}

func (x *Exec) pkgOfContract(fc *FuncContract, callee *ssa.Function) *types.Package {
	if callee != nil {
		if p := x.P.rootPkg(callee); p != nil && x.P.InVerifiedPkg(callee) {
			return p
		}
	}
	return x.curPkg
}

// havocForCall forgets the locations the callee may write.
func (x *Exec) havocForCall(st *State, env *Env, callee *ssa.Function, fc *FuncContract, name string) {
	if fc.Pure {
		return
	}
	var classes map[string]bool
	if fc.HasMod {
		classes = map[string]bool{}
		for _, m := range fc.Modifies {
			x.havocModItem(st, env, m, classes)
		}
		// ghost variables assigned by the ghost clause are updated by applyGhost;
		x.havocClasses(st, classes)
		return
	}
	if callee != nil && x.Eff != nil && x.P.InVerifiedPkg(callee) {
		classes = x.Eff.FuncWrites(callee).Classes
		cl := map[string]bool{}
		for c := range classes {
			// ghost vars directly assigned by this contract's ghost clause are set, not havocked
			cl[c] = true
		}
		for _, g := range fc.Ghost {
			delete(cl, "g."+g.Var)
		}
		for c := range x.Eff.ghostWritesOf(callee, fc) {
			if !assignedBy(fc, c) {
				cl["g."+c] = true
			}
		}
		x.havocClasses(st, cl)
		return
	}
	// extern without modifies: writes nothing we model, unless declared
}

func assignedBy(fc *FuncContract, g string) bool {
	for _, a := range fc.Ghost {
		if a.Var == g {
			return true
		}
	}
	return false
}

// havocModItem handles one modifies item. Supported forms:
//   T.f          all objects' field f        (class H_T_f)
//   x.f          field f of object x         (others framed)
//   p[*], p[lo..hi)  elements of slice p     (others framed)
//   g.name       ghost variable
//   E:T / M:K,V  raw classes
func (x *Exec) havocModItem(st *State, env *Env, m ModItem, classes map[string]bool) {
	switch e := m.Expr.(type) {
	case *CSel:
		if id, ok := e.X.(*CIdent); ok {
			if id.Name == "g" || id.Name == "ext" {
				classes["g."+e.Name] = true
				return
			}
			// type name?
			if _, bound := env.vars[id.Name]; !bound {
				if tn := x.lookupTypeName(env, id.Name); tn != nil {
					if stt, ok := structOf(tn); ok {
						for i := 0; i < stt.NumFields(); i++ {
							if stt.Field(i).Name() == e.Name {
								hn, hs := x.fieldHeapName(tn, i)
								x.heap(st, hn, hs)
								classes[hn] = true
								x.alsoContents(st, stt.Field(i).Type(), classes)
								return
							}
						}
					}
					x.limit("modifies: no field %s in %s", e.Name, id.Name)
				}
			}
		}
		// object field: x.f where x evaluates to a pointer to struct
		base := x.eval(env, e.X)
		bt := base.Typ
		if pt, ok := bt.Underlying().(*types.Pointer); ok {
			bt = pt.Elem()
		}
		stt, ok := structOf(bt)
		if !ok {
			x.limit("modifies %s: not a struct", m.Src)
		}
		for i := 0; i < stt.NumFields(); i++ {
			if stt.Field(i).Name() == e.Name {
				hn, hs := x.fieldHeapName(bt, i)
				h := x.heap(st, hn, hs)
				oldv := app("select", h, x.refTerm(base))
				fv := x.freshSort("mod_"+e.Name, x.Sorts.SortOf(stt.Field(i).Type()))
				x.setHeap(st, hn, hs, app("store", h, x.refTerm(base), fv))
				nv := &Value{T: fv, Typ: stt.Field(i).Type()}
				x.assumeTypeInv(st, nv)
				x.assumeAllocated(st, nv)
				if _, isSl := stt.Field(i).Type().Underlying().(*types.Slice); isSl {
					st.assume(eq(app("s_off", fv), "0"))
				}
				x.havocContentsFramed(st, stt.Field(i).Type(), oldv)
				return
			}
		}
		x.limit("modifies: no field %s", e.Name)
	case *CIndex, *CSlice:
		var sx CExpr
		var lo, hi CExpr
		all := false
		switch ee := e.(type) {
		case *CIndex:
			sx = ee.X
			if id, ok := ee.I.(*CIdent); ok && id.Name == "all" {
				all = true
			} else {
				lo = ee.I
				hi = &CBin{"+", ee.I, &CLit{"int", "1"}}
			}
		case *CSlice:
			sx, lo, hi = ee.X, ee.Lo, ee.Hi
		}
		s := x.eval(env, sx)
		sl, ok := s.Typ.Underlying().(*types.Slice)
		if !ok {
			x.limit("modifies %s: not a slice", m.Src)
		}
		hn, hs := x.elemHeapName(sl.Elem())
		h := x.heap(st, hn, hs)
		arr, off, ln, _ := x.sliceParts(x.term(s))
		es := x.Sorts.SortOf(sl.Elem())
		na := x.freshSort("modarr", fmt.Sprintf("(Array Int %s)", es))
		lot, hit := "0", ln
		if !all {
			if lo != nil {
				lot = x.term(x.eval(env, lo))
			}
			if hi != nil {
				hit = x.term(x.eval(env, hi))
			}
		}
		// frame inside the array: indices outside [off+lo, off+hi) unchanged
		st.assume(fmt.Sprintf("(forall ((i Int)) (! (=> (not (and (<= %s i) (< i %s))) (= (select %s i) (select (select %s %s) i))) :pattern ((select %s i))))",
			addT(off, lot), addT(off, hit), na, h, arr, na))
		if rng := x.elemRange[hn]; rng != "" {
			st.assume(fmt.Sprintf("(forall ((i Int)) (! (and (<= 0 (select %s i)) (<= (select %s i) %s)) :pattern ((select %s i))))", na, na, rng, na))
		}
		x.setHeap(st, hn, hs, app("store", h, arr, na))
	case *CIdent:
		if _, bound := env.vars[e.Name]; bound {
			mv := x.eval(env, e)
			if mv.Typ != nil {
				if _, isMap := mv.Typ.Underlying().(*types.Map); isMap {
					x.havocContentsFramed(st, mv.Typ, x.term(mv))
					return
				}
			}
		}
		// raw class name or a whole-type shorthand
		classes[e.Name] = true
	case *CCall:
		// contents(p.f): element/map heaps reachable from a field
		classes[m.Src] = true
	default:
		x.limit("unsupported modifies item %s", m.Src)
	}
}

// havocContentsFramed: the contents reachable through one slice/map value may
// change; every other array/map that existed before the call keeps its contents.
func (x *Exec) havocContentsFramed(st *State, t types.Type, oldv string) {
	nb := x.nextBefore
	if nb == "" {
		nb = x.nextTerm(st)
	}
	frame := func(hn, hs, key string) {
		h := x.heap(st, hn, hs)
		nh := x.freshSort(hn, hs)
		st.assume(fmt.Sprintf("(forall ((a Int)) (! (=> (and (< a %s) (not (= a %s))) (= (select %s a) (select %s a))) :pattern ((select %s a))))", nb, key, nh, h, nh))
		if ax := x.birthAxiom(hn, nh, hs, x.nextTerm(st)); ax != "" {
			st.assume(ax)
		}
		st.heaps[hn] = nh
	}
	switch u := t.Underlying().(type) {
	case *types.Slice:
		hn, hs := x.elemHeapName(u.Elem())
		frame(hn, hs, app("s_arr", oldv))
	case *types.Map:
		dn, vn, ds, vs := x.mapHeapNames(u)
		frame(dn, ds, oldv)
		frame(vn, vs, oldv)
	}
}

func (x *Exec) alsoContents(st *State, t types.Type, classes map[string]bool) {
	switch u := t.Underlying().(type) {
	case *types.Slice:
		hn, hs := x.elemHeapName(u.Elem())
		x.heap(st, hn, hs)
		classes[hn] = true
	case *types.Map:
		dn, vn, ds, vs := x.mapHeapNames(u)
		x.heap(st, dn, ds)
		x.heap(st, vn, vs)
		classes[dn] = true
		classes[vn] = true
	}
}

func (x *Exec) lookupTypeName(env *Env, name string) types.Type {
	pk := env.pkg
	if pk == nil {
		pk = x.curPkg
	}
	if pk == nil {
		return nil
	}
	if o := pk.Scope().Lookup(name); o != nil {
		if tn, ok := o.(*types.TypeName); ok {
			return tn.Type()
		}
	}
	if o := x.P.TPkgs["bcl"].Scope().Lookup(name); o != nil {
		if tn, ok := o.(*types.TypeName); ok {
			return tn.Type()
		}
	}
	return nil
}

// applyGhost performs the ghost assignments of a contract (simultaneously).
func (x *Exec) applyGhost(st *State, env *Env, fc *FuncContract) {
	x.applyGhostList(st, env, fc.Ghost)
}

func (x *Exec) applyGhostList(st *State, env *Env, list []GhostAssign) {
	if len(list) == 0 {
		return
	}
	vals := make([]*Value, len(list))
	for i, g := range list {
		vals[i] = x.eval(env, g.Expr)
	}
	for i, g := range list {
		gv, ok := x.C.Ghosts[g.Var]
		if !ok {
			x.limit("ghost assignment to undeclared ghost variable %s", g.Var)
		}
		sort := x.ghostSort(gv)
		t := x.term(vals[i])
		st.ghost[g.Var] = &Value{T: x.def(st, "g_"+g.Var, sort, t), Typ: x.ghostType(gv), Sort: sort}
	}
}

// ---------------------------------------------------------------------------
// slots, invokes, externs

func (x *Exec) slotCall(st *State, fr *Frame, c *ssa.CallCommon, fnv *Value, args []*Value, pos ssa.Instruction) {
	slot := ""
	if fnv != nil {
		slot = fnv.Slot
	}
	// explicit mapping by local variable name in the caller's contract
	if fc := x.contractOfFrame(fr); fc != nil {
		if u, ok := c.Value.(*ssa.UnOp); ok {
			if al, ok := u.X.(*ssa.Alloc); ok {
				if s, ok := fc.SlotOf[al.Comment]; ok {
					slot = s
				}
			}
		}
	}
	if slot == "" {
		// the function value is the result of a call to a function whose contract names the slot of its result
		if cl, ok := c.Value.(*ssa.Call); ok {
			if sc := cl.Common().StaticCallee(); sc != nil {
				if cfc, ok := x.C.Funcs[x.P.FuncName(sc)]; ok {
					if s, ok := cfc.SlotOf["result"]; ok {
						slot = s
					}
				}
			}
		}
	}
	if slot == "" {
		// by named function type
		if nt, ok := c.Value.Type().(*types.Named); ok {
			slot = nt.Obj().Name()
		}
	}
	t := x.refTerm(fnv)
	x.safety(st, "nilfunc", not(eq(t, "0")), pos)
	sc, ok := x.C.Slots[slot]
	if !ok {
		x.abstraction("dynamic call through %s without a slot contract at %s: results and all heaps it may reach are havocked", slot, x.P.Pos(instrPos(pos)))
		x.havocAllHeaps(st)
		sig := c.Signature()
		var res []*Value
		for i := 0; i < sig.Results().Len(); i++ {
			rv := x.fresh("dyn", sig.Results().At(i).Type())
			x.assumeTypeInv(st, rv)
			res = append(res, rv)
		}
		x.setResult(fr, pos, x.tuple(res, sig.Results()))
		return
	}
	x.selfVal = fnv
	x.callBySlot(st, fr, sc, slot, c.Signature(), args, pos)
	x.selfVal = nil
}

func (x *Exec) callBySlot(st *State, fr *Frame, sc *FuncContract, slot string, sig *types.Signature, args []*Value, pos ssa.Instruction) {
	where := x.P.Pos(instrPos(pos))
	env := &Env{x: x, st: st, old: st, vars: map[string]*Value{}, pkg: x.curPkg}
	for i, p := range sc.Params {
		if i < len(args) {
			env.vars[p.Name] = args[i]
		}
	}
	if x.selfVal != nil {
		env.vars["self"] = &Value{T: x.refTerm(x.selfVal), Sort: "Int"}
	}
	ord := x.siteOrdinal(fr.Fn, pos, "")
	_ = ord
	tag := "pre@slot:" + slot
	var invs []boundInv
	for _, inv := range x.C.Invs {
		if sc.NoInv[inv.Name] {
			continue
		}
		for i := 0; i < sig.Params().Len() && i < len(args); i++ {
			if x.typeMatches(sig.Params().At(i).Type(), inv.Type) {
				invs = append(invs, boundInv{inv: inv, Binder: inv.Binder, val: args[i]})
				break
			}
		}
	}
	for _, bi := range invs {
		if bi.inv.History {
			continue
		}
		x.oblige(st, tag, "inv_"+bi.inv.Name, bi.inv.Props, x.evalBool(env.with(bi.Binder, bi.val), bi.inv.Expr), where, bi.inv.Src)
	}
	for i, r := range sc.Requires {
		label := r.Label
		if label == "" {
			label = fmt.Sprint(i + 1)
		}
		props := r.Props
		if len(props) == 0 {
			props = x.safetyProps()
		}
		if !contains(props, "C06") {
			props = append(append([]string{}, props...), "C06")
		}
		x.oblige(st, tag, label, props, x.evalBool(env, r.Expr), where, r.Src)
	}
	// call-site assertions of the caller's contract (At: "slot:<name>")
	// (also when the call through the slot sits in a contract-less helper inlined into the function)
	if x.fc != nil && (fr.Fn == x.fn || (len(st.frames) >= 2 && st.frames[0].Fn == x.fn)) {
		for _, a := range x.fc.Asserts {
			if a.At == "slot."+slot {
				cenv := x.envFor(st, x.entry, st.frames[0])
				for k, v := range env.vars {
					cenv.vars["$"+k] = v
				}
				if !x.snapsReady(st, a) {
					continue
				}
				x.fired[a] = true
				x.oblige(st, "assert@slot:"+slot, a.Label, a.Props, x.evalBool(cenv, a.Expr), where, a.Src)
			}
		}
	}
	old := st.snapshot()
	x.nextBefore = x.nextTerm(st)
	x.bumpNext(st)
	defer func() { x.nextBefore = "" }()
	if sc.HasMod {
		classes := map[string]bool{}
		for _, m := range sc.Modifies {
			x.havocModItem(st, env, m, classes)
		}
		x.havocClasses(st, classes)
	} else if x.Eff != nil {
		x.havocClasses(st, x.Eff.SlotWrites(slot))
	}
	var res []*Value
	for i := 0; i < sig.Results().Len(); i++ {
		rv := x.fresh("ret_slot", sig.Results().At(i).Type())
		x.assumeTypeInv(st, rv)
		res = append(res, rv)
	}
	post := (&Env{x: x, st: st, old: old, vars: env.vars, pkg: env.pkg, newBase: x.nextBefore}).withResultsSig(res, sig, sc)
	x.applyGhost(st, post, sc)
	for _, e := range sc.Ensures {
		st.assume(x.evalBool(post, e.Expr))
	}
	for _, bi := range invs {
		st.assume(x.evalBool(post.with(bi.Binder, bi.val), bi.inv.Expr))
	}
	x.setResult(fr, pos, x.tuple(res, sig.Results()))
}

func (x *Exec) havocAllHeaps(st *State) {
	for n := range st.hsort {
		if strings.HasPrefix(n, "G_") {
			continue
		}
		x.havocHeap(st, n)
	}
	st.heaps["!havoc:*"] = x.havocToken(st)
}

func (x *Exec) invoke(st *State, fr *Frame, c *ssa.CallCommon, recv *Value, args []*Value, pos ssa.Instruction) {
	// interface method call: contract keyed "(Iface).Method"
	it := c.Value.Type()
	key := "(" + types.TypeString(it, func(p *types.Package) string {
		if p.Path() == bclPath {
			return ""
		}
		return p.Name()
	}) + ")." + c.Method.Name()
	rt := x.term(recv)
	if !isValIface(it) {
		x.safety(st, "nil", not(eq(rt, "0")), pos)
	}
	sig := c.Signature()
	if fc, ok := x.C.Funcs[key]; ok {
		all := append([]*Value{recv}, args...)
		x.callBySlot(st, fr, fc, key, types.NewSignatureType(nil, nil, nil, prependParam(sig, it), sig.Results(), false), all, pos)
		return
	}
	x.abstraction("interface method %s without contract: results arbitrary, slice arguments havocked (%s)", key, x.P.Pos(instrPos(pos)))
	x.havocSliceArgs(st, args)
	var res []*Value
	for i := 0; i < sig.Results().Len(); i++ {
		rv := x.fresh("inv_"+c.Method.Name(), sig.Results().At(i).Type())
		x.assumeTypeInv(st, rv)
		res = append(res, rv)
	}
	x.setResult(fr, pos, x.tuple(res, sig.Results()))
}

func prependParam(sig *types.Signature, t types.Type) *types.Tuple {
	vars := []*types.Var{types.NewParam(0, nil, "recv", t)}
	for i := 0; i < sig.Params().Len(); i++ {
		vars = append(vars, sig.Params().At(i))
	}
	return types.NewTuple(vars...)
}

func (x *Exec) havocSliceArgs(st *State, args []*Value) {
	for _, a := range args {
		if a.Typ == nil {
			continue
		}
		if sl, ok := a.Typ.Underlying().(*types.Slice); ok {
			hn, hs := x.elemHeapName(sl.Elem())
			h := x.heap(st, hn, hs)
			arr, _, _, _ := x.sliceParts(x.term(a))
			na := x.freshSort("extarr", fmt.Sprintf("(Array Int %s)", x.Sorts.SortOf(sl.Elem())))
			x.setHeap(st, hn, hs, app("store", h, arr, na))
		}
	}
}

func (x *Exec) defaultExtern(st *State, fr *Frame, callee *ssa.Function, full string, args []*Value, pos ssa.Instruction) {
	x.abstraction("external function %s without contract: results arbitrary, slice arguments havocked", full)
	x.havocSliceArgs(st, args)
	sig := callee.Signature
	var res []*Value
	for i := 0; i < sig.Results().Len(); i++ {
		rv := x.fresh("ext_"+callee.Name(), sig.Results().At(i).Type())
		x.assumeTypeInv(st, rv)
		res = append(res, rv)
	}
	x.setResult(fr, pos, x.tuple(res, sig.Results()))
}

// ---------------------------------------------------------------------------
// builtins

func (x *Exec) builtin(st *State, b *ssa.Builtin, c *ssa.CallCommon, args []*Value, pos ssa.Instruction) *Value {
	rt := types.Type(types.Typ[types.Int])
	if v, ok := pos.(ssa.Value); ok {
		rt = v.Type()
	}
	switch b.Name() {
	case "len":
		a := args[0]
		switch u := a.Typ.Underlying().(type) {
		case *types.Slice:
			_, _, ln, _ := x.sliceParts(x.term(a))
			return &Value{T: ln, Typ: rt}
		case *types.Basic:
			if a.K != nil && a.K.Kind() == constant.String {
				return &Value{Typ: rt, K: constant.MakeInt64(int64(len(constant.StringVal(a.K))))}
			}
			return &Value{T: app("slen", x.term(a)), Typ: rt}
		case *types.Array:
			return &Value{Typ: rt, K: constant.MakeInt64(u.Len())}
		case *types.Map:
			// the number of entries is not tracked: an arbitrary non-negative int
			n := x.fresh("maplen", rt)
			st.assume(and(app("<=", "0", n.T), app("<=", n.T, "9223372036854775807")))
			// an empty map has no keys
			dn, _, ds, _ := x.mapHeapNames(u)
			ks := x.Sorts.SortOf(u.Key())
			dom := app("select", x.heap(st, dn, ds), x.term(a))
			st.assume(fmt.Sprintf("(=> (= %s 0) (forall ((k %s)) (! (not (select %s k)) :pattern ((select %s k)))))", n.T, ks, dom, dom))
			return n
		case *types.Pointer:
			if at, ok := u.Elem().Underlying().(*types.Array); ok {
				return &Value{Typ: rt, K: constant.MakeInt64(at.Len())}
			}
		}
	case "cap":
		a := args[0]
		if _, ok := a.Typ.Underlying().(*types.Slice); ok {
			_, _, _, cp := x.sliceParts(x.term(a))
			return &Value{T: cp, Typ: rt}
		}
	case "append":
		return x.appendBuiltin(st, args, rt, pos)
	case "copy":
		return x.copyBuiltin(st, args, rt, pos)
	case "max", "min":
		op := ">="
		if b.Name() == "min" {
			op = "<="
		}
		r := args[0]
		for _, a := range args[1:] {
			ta, tb := x.termAs(r, rt), x.termAs(a, rt)
			r = &Value{T: app("ite", app(op, ta, tb), ta, tb), Typ: rt}
		}
		return r
	case "close":
		x.chanEvent(st, "close", args[0], nil, pos)
		return &Value{Typ: rt}
	case "delete":
		x.limit("delete() not modelled")
	case "ssa:wrapnilchk":
		return args[0]
	case "ssa:deferstack":
		return &Value{Typ: rt}
	case "print", "println":
		return &Value{Typ: rt}
	case "panic":
		x.safety(st, "panic", "false", pos)
		st.dead = true
		return &Value{Typ: rt}
	}
	x.limit("unsupported builtin %s at %s", b.Name(), x.P.Pos(instrPos(pos)))
	return nil
}

func (x *Exec) appendBuiltin(st *State, args []*Value, rt types.Type, pos ssa.Instruction) *Value {
	s, t := args[0], args[1]
	sl := rt.Underlying().(*types.Slice)
	el := sl.Elem()
	hn, hs := x.elemHeapName(el)
	h := x.heap(st, hn, hs)
	sarr, soff, slen_, scap := x.sliceParts(x.term(s))
	// the appended part: a slice (or a string for append([]byte, string...))
	var tlen string
	var telem func(i string) string
	if isStringType(t.Typ) {
		ts := x.term(t)
		tlen = app("slen", ts)
		telem = func(i string) string { return app("sat", ts, i) }
	} else {
		tarr, toff, tl, _ := x.sliceParts(x.term(t))
		tlen = tl
		telem = func(i string) string { return app("select", app("select", h, tarr), addT(toff, i)) }
	}
	narr := x.freshSort("app_arr", "Int")
	ncap := x.freshSort("app_cap", "Int")
	nlen := addT(slen_, tlen)
	// new backing content: old content of s's array with the new elements stored after it
	base := app("select", h, sarr)
	var content string
	if n, ok := termIsIntLit(tlen); ok && n <= 8 {
		content = base
		for i := int64(0); i < n; i++ {
			content = app("store", content, addT(addT(soff, slen_), fmt.Sprint(i)), telem(fmt.Sprint(i)))
		}
	} else {
		es := x.Sorts.SortOf(el)
		na := x.freshSort("app_content", fmt.Sprintf("(Array Int %s)", es))
		st.assume(fmt.Sprintf("(forall ((i Int)) (! (= (select %s i) (ite (and (<= %s i) (< i %s)) %s (select %s i))) :pattern ((select %s i))))",
			na, addT(soff, slen_), addT(soff, nlen), telem(subT("i", addT(soff, slen_))), base, na))
		content = na
	}
	if tl, ok := termIsIntLit(tlen); ok && tl == 0 {
		// appending nothing returns s unchanged (possibly nil)
		return &Value{T: x.term(s), Typ: rt}
	}
	cur := x.nextTerm(st)
	n2 := x.freshSort("next", "Int")
	inplace := and(eq(narr, sarr), leT(nlen, scap), eq(ncap, scap), eq(n2, cur))
	fresh := and(app(">=", narr, cur), eq(n2, app("+", narr, "1")), app(">=", ncap, nlen), app(">", nlen, scap))
	st.assume(or(inplace, fresh))
	st.heaps["!next"] = n2
	x.setHeap(st, hn, hs, app("store", h, narr, content))
	return &Value{T: app("mk_slice", narr, soff, nlen, ncap), Typ: rt}
}

func (x *Exec) copyBuiltin(st *State, args []*Value, rt types.Type, pos ssa.Instruction) *Value {
	dst, src := args[0], args[1]
	sl := dst.Typ.Underlying().(*types.Slice)
	hn, hs := x.elemHeapName(sl.Elem())
	h := x.heap(st, hn, hs)
	darr, doff, dlen, _ := x.sliceParts(x.term(dst))
	var slen_ string
	var selem func(i string) string
	if isStringType(src.Typ) {
		ts := x.term(src)
		slen_ = app("slen", ts)
		selem = func(i string) string { return app("sat", ts, i) }
	} else {
		sarr, soff, sl2, _ := x.sliceParts(x.term(src))
		slen_ = sl2
		selem = func(i string) string { return app("select", app("select", h, sarr), addT(soff, i)) }
	}
	n := x.def(st, "copy_n", "Int", app("ite", app("<=", dlen, slen_), dlen, slen_))
	es := x.Sorts.SortOf(sl.Elem())
	na := x.freshSort("copy_arr", fmt.Sprintf("(Array Int %s)", es))
	st.assume(fmt.Sprintf("(forall ((i Int)) (! (= (select %s i) (ite (and (<= %s i) (< i %s)) %s (select (select %s %s) i))) :pattern ((select %s i))))",
		na, doff, addT(doff, n), selem(subT("i", doff)), h, darr, na))
	x.setHeap(st, hn, hs, app("store", h, darr, na))
	return &Value{T: n, Typ: rt}
}

// ---------------------------------------------------------------------------
// Channel events: the sequential protocol view. For a channel held in a
// variable or field named X the ghost variables (when declared)
//   ev_send_X, ev_recv_X, ev_close_X  count the events,
//   ev_val_X     holds the last value received (error/int channels),
//   ev_bytes_X   sums the lengths of strings received, ev_closed_X records
//                that a receive found the channel closed.
// Closing a channel requires ev_close_X == 0 (closing twice panics).

func chanVarName(v ssa.Value) string {
	switch c := v.(type) {
	case *ssa.UnOp:
		switch a := c.X.(type) {
		case *ssa.Alloc:
			return a.Comment
		case *ssa.FreeVar:
			return a.Name()
		case *ssa.FieldAddr:
			if st, ok := a.X.Type().Underlying().(*types.Pointer).Elem().Underlying().(*types.Struct); ok {
				return st.Field(a.Field).Name()
			}
		}
	case *ssa.Parameter:
		return c.Name()
	case *ssa.MakeChan:
		if refs := c.Referrers(); refs != nil {
			for _, r := range *refs {
				if st, ok := r.(*ssa.Store); ok {
					if al, ok := st.Addr.(*ssa.Alloc); ok {
						return al.Comment
					}
				}
			}
		}
	case *ssa.ChangeType:
		return chanVarName(c.X)
	}
	return ""
}

func (x *Exec) bumpGhost(st *State, name string, cond string) {
	gv, ok := st.ghost[name]
	if !ok {
		return
	}
	nt := app("+", x.term(gv), "1")
	if cond != "" {
		nt = app("ite", cond, nt, x.term(gv))
	}
	st.ghost[name] = &Value{T: x.def(st, "g_"+name, "Int", nt), Typ: gv.Typ, Sort: gv.Sort}
}

func (x *Exec) setGhost(st *State, name string, term string, cond string) {
	gv, ok := st.ghost[name]
	if !ok {
		return
	}
	if cond != "" {
		term = app("ite", cond, term, x.term(gv))
	}
	st.ghost[name] = &Value{T: x.def(st, "g_"+name, gv.Sort, term), Typ: gv.Typ, Sort: gv.Sort}
}

func (x *Exec) chanEventNamed(st *State, kind, name string, v *Value, okT string, cond string, pos ssa.Instruction) {
	if kind == "recv" {
		x.afterRecv(st)
	}
	if name == "" {
		return
	}
	x.chanPromises(st, kind, name, v, okT, cond, pos)
	switch kind {
	case "close":
		if gv, ok := st.ghost["ev_close_"+name]; ok {
			x.safety(st, "closeclosed", eq(x.term(gv), "0"), pos)
		}
		x.bumpGhost(st, "ev_close_"+name, cond)
	case "send":
		x.bumpGhost(st, "ev_send_"+name, cond)
		if v != nil && (v.T != "" || v.K != nil) {
			if gv, ok := st.ghost["ev_sent_"+name]; ok && (v.Typ == nil || gv.Sort == x.Sorts.SortOf(v.Typ)) {
				x.setGhost(st, "ev_sent_"+name, x.term(v), cond)
			}
		}
	case "recv":
		c := cond
		if okT != "" {
			c = and(cond, okT)
			if c == "true" {
				c = ""
			}
			if gv, has := st.ghost["ev_closed_"+name]; has {
				x.setGhost(st, "ev_closed_"+name, or(x.term(gv), not(okT)), cond)
			}
		}
		x.bumpGhost(st, "ev_recv_"+name, c)
		if v != nil && v.T != "" {
			if gv, ok := st.ghost["ev_val_"+name]; ok && gv.Sort == x.Sorts.SortOf(v.Typ) {
				x.setGhost(st, "ev_val_"+name, v.T, c)
			}
			// prophecy variable ev_src_X: the concatenation of everything the channel will ever deliver.
			// A received chunk is the next piece of it; a closed channel means all of it was received.
			if sv, ok := st.ghost["ev_src_"+name]; ok && isStringType(v.Typ) {
				if bv, ok := st.ghost["ev_bytes_"+name]; ok {
					src, before := x.term(sv), x.term(bv)
					piece := fmt.Sprintf("(and (<= (+ %s (slen %s)) (slen %s)) (forall ((i Int)) (! (=> (and (<= 0 i) (< i (slen %s))) (= (sat %s i) (sat %s (+ %s i)))) :pattern ((sat %s i)))))",
						before, v.T, src, v.T, v.T, src, before, v.T)
					if c != "" {
						piece = implies(c, piece)
					}
					st.assume(piece)
					if okT != "" {
						closed := implies(not(okT), eq(before, app("slen", src)))
						if cond != "" {
							closed = implies(cond, closed)
						}
						st.assume(closed)
					}
				}
			}
			if gv, ok := st.ghost["ev_bytes_"+name]; ok && isStringType(v.Typ) {
				nt := app("+", x.term(gv), app("slen", v.T))
				if c != "" {
					nt = app("ite", c, nt, x.term(gv))
				}
				st.ghost["ev_bytes_"+name] = &Value{T: x.def(st, "g_ev_bytes_"+name, "Int", nt), Typ: gv.Typ, Sort: gv.Sort}
			}
		}
	}
}

func (x *Exec) chanEvent(st *State, kind string, ch *Value, v *Value, pos ssa.Instruction) {
	var cv ssa.Value
	switch i := pos.(type) {
	case *ssa.UnOp:
		cv = i.X
	case *ssa.Send:
		cv = i.Chan
	case *ssa.Call:
		if len(i.Common().Args) > 0 {
			cv = i.Common().Args[0]
		}
	case *ssa.Defer:
		if len(i.Common().Args) > 0 {
			cv = i.Common().Args[0]
		}
	}
	if cv == nil {
		return
	}
	if u, ok := pos.(*ssa.UnOp); ok && u.CommaOk {
		return // handled by chanRecvOk, which knows the ok flag
	}
	x.chanEventNamed(st, kind, chanVarName(cv), v, "", "", pos)
}

func (x *Exec) chanRecvOk(st *State, ch, v, ok *Value, pos ssa.Instruction) {
	u, isU := pos.(*ssa.UnOp)
	if !isU {
		return
	}
	// a value received from a closed channel is the zero value
	st.assume(implies(not(ok.T), eq(x.term(v), x.Sorts.Zero(v.Typ))))
	x.chanEventNamed(st, "recv", chanVarName(u.X), v, ok.T, "", pos)
}

func (x *Exec) chanSelectEvent(st *State, i int, idx *Value, kind string, ch, v *Value, pos ssa.Instruction) {
	sel, ok := pos.(*ssa.Select)
	if !ok || i >= len(sel.States) {
		return
	}
	x.chanEventNamed(st, kind, chanVarName(sel.States[i].Chan), v, "", eq(idx.T, fmt.Sprint(i)), pos)
}

func (x *Exec) ghostEvent(st *State, kind string, pos ssa.Instruction) {}

// chanPromises: rely/guarantee on messages. A `promise ... at ch:` clause in the
// contract of the function that owns channel ch must hold whenever one of its
// goroutines sends on ch ($msg is the value sent) and is assumed by the owner
// after it receives from ch ($msg is the value received). Sound under the
// hand-off discipline (discipline/goroutine-results-handed-off-through-a-channel).
func (x *Exec) chanPromises(st *State, kind, name string, v *Value, okT, cond string, pos ssa.Instruction) {
	if pos == nil || pos.Parent() == nil {
		return
	}
	fr := st.top()
	// promises are indexed by channel name over all contracts (deterministic order)
	var prs []*Clause
	var owners []string
	for n := range x.C.Funcs {
		owners = append(owners, n)
	}
	sort.Strings(owners)
	for _, n := range owners {
		for _, pr := range x.C.Funcs[n].Promises {
			prs = append(prs, pr)
		}
	}
	bind := func(env *Env, msg *Value, prevVar, cntVar string) {
		if msg != nil {
			env.vars["$msg"] = msg
		}
		if pv, ok := st.ghost[prevVar]; ok {
			env.vars["$prev"] = pv
		}
		if cv, ok := st.ghost[cntVar]; ok {
			env.vars["$n"] = cv
		}
	}
	switch kind {
	case "send":
		if v == nil {
			return
		}
		for _, pr := range prs {
			if pr.At != name {
				continue
			}
			env := x.envFor(st, x.entry, fr)
			bind(env, v, "ev_sent_"+name, "ev_send_"+name)
			g := x.evalBool(env, pr.Expr)
			if cond != "" {
				g = implies(cond, g)
			}
			x.oblige(st, "send@"+name, pr.Label, pr.Props, g, x.P.Pos(instrPos(pos)), pr.Src)
		}
	case "close":
		for _, pr := range prs {
			if pr.At != "close "+name {
				continue
			}
			env := x.envFor(st, x.entry, fr)
			bind(env, nil, "ev_sent_"+name, "ev_send_"+name)
			g := x.evalBool(env, pr.Expr)
			if cond != "" {
				g = implies(cond, g)
			}
			x.oblige(st, "close@"+name, pr.Label, pr.Props, g, x.P.Pos(instrPos(pos)), pr.Src)
		}
	case "recv":
		if v == nil {
			return
		}
		for _, pr := range prs {
			switch {
			case pr.At == name:
				env := x.envFor(st, x.entry, fr)
				bind(env, v, "ev_val_"+name, "ev_recv_"+name)
				g := x.evalBool(env, pr.Expr)
				c := cond
				if okT != "" {
					c = and(cond, okT)
				}
				if c != "" && c != "true" {
					g = implies(c, g)
				}
				st.assume(g)
			case pr.At == "close "+name && okT != "":
				env := x.envFor(st, x.entry, fr)
				bind(env, nil, "ev_val_"+name, "ev_recv_"+name)
				g := implies(and(cond, not(okT)), x.evalBool(env, pr.Expr))
				st.assume(g)
			}
		}
	}
}

// innermostHead: the recorded head state of the innermost loop of the verified function that is open
// on this path (prev() in call-site assertions inside a loop refers to it).
func (x *Exec) innermostHead(st *State, fr *Frame) *State {
	if fr == nil || len(fr.Open) == 0 {
		return nil
	}
	l := fr.Open[len(fr.Open)-1]
	return st.heads[fmt.Sprintf("%p:%d", fr.Fn, l.Ordinal)]
}
