package main

import (
	"context"
	"encoding/json"
	"flag"
	"fmt"
	"os"
	"os/exec"
	"path/filepath"
	"sort"
	"strings"
	"sync"
	"time"

	"golang.org/x/tools/go/ssa"
)

const verifDir = "/verif"

func main() {
	if len(os.Args) < 2 {
		fmt.Fprintln(os.Stderr, "usage: govc check|list|ssa|effects ...")
		os.Exit(2)
	}
	switch os.Args[1] {
	case "check":
		os.Exit(cmdCheck(os.Args[2:]))
	case "ssa":
		cmdSSA(os.Args[2:])
	case "list":
		cmdList(os.Args[2:])
	case "locals":
		cmdLocals(os.Args[2:])
	case "effects":
		cmdEffects(os.Args[2:])
	case "replay":
		os.Exit(cmdReplay(os.Args[2:]))
	default:
		fmt.Fprintln(os.Stderr, "unknown command", os.Args[1])
		os.Exit(2)
	}
}

func loadAll(repo string) (*Program, *Contracts, error) {
	p, err := LoadProgram(repo)
	if err != nil {
		return nil, nil, err
	}
	c := NewContracts()
	var files []string
	for _, g := range []string{filepath.Join(repo, "*_verif.go"), filepath.Join(repo, "cmd/bcl/*_verif.go"), filepath.Join(verifDir, "contracts/*.spec")} {
		m, _ := filepath.Glob(g)
		sort.Strings(m)
		files = append(files, m...)
	}
	for _, f := range files {
		if err := c.LoadFile(f); err != nil {
			return nil, nil, err
		}
	}
	for n, pf := range c.Pures {
		if pf.Body == nil {
			uninterpretedSpecs["sp_"+n] = true
		}
	}
	return p, c, nil
}

func cmdSSA(args []string) {
	p, _, err := loadAll("/repo")
	if err != nil {
		fmt.Fprintln(os.Stderr, err)
		os.Exit(2)
	}
	for _, n := range args {
		f := p.Lookup(n)
		if f == nil {
			fmt.Println("not found:", n)
			continue
		}
		f.WriteTo(os.Stdout)
		for i, l := range p.Loops(f) {
			fmt.Printf("# loop %d: header block %d\n", i+1, l.Header.Index)
		}
	}
}

func cmdList(args []string) {
	p, c, err := loadAll("/repo")
	if err != nil {
		fmt.Fprintln(os.Stderr, err)
		os.Exit(2)
	}
	var ns []string
	for n := range p.Funcs {
		ns = append(ns, n)
	}
	sort.Strings(ns)
	for _, n := range ns {
		mark := " "
		if _, ok := c.Funcs[n]; ok {
			mark = "*"
		}
		if a := p.ClosureAlias(p.Funcs[n]); a != "" {
			if _, ok := c.Funcs[a]; ok {
				mark = "*"
			}
			fmt.Printf("%s %s  (= %s)\n", mark, n, a)
			continue
		}
		fmt.Printf("%s %s\n", mark, n)
	}
}

func cmdEffects(args []string) {
	p, c, err := loadAll("/repo")
	if err != nil {
		fmt.Fprintln(os.Stderr, err)
		os.Exit(2)
	}
	e := NewEffects(p, c)
	for _, n := range args {
		f := p.Lookup(n)
		if f == nil {
			fmt.Println("not found:", n)
			continue
		}
		fmt.Println(e.Describe(f))
	}
}

// ---------------------------------------------------------------------------

type job struct {
	o   *Obligation
	reg *Registry
}

type Finding struct {
	Property   string `json:"property"`
	Obligation string `json:"obligation"` // exact name or prefix ending in *
	Status     string `json:"status"`     // open | fixed
	What       string `json:"what"`
	Commit     string `json:"commit,omitempty"`
}

func loadFindings() []Finding {
	var fs []Finding
	b, err := os.ReadFile(filepath.Join(verifDir, "known_findings.json"))
	if err != nil {
		return nil
	}
	json.Unmarshal(b, &fs)
	return fs
}

func matchFinding(fs []Finding, prop, name string) *Finding {
	for i := range fs {
		f := &fs[i]
		if f.Status != "open" || f.Property != prop {
			continue
		}
		if f.Obligation == name || (strings.HasSuffix(f.Obligation, "*") && strings.HasPrefix(name, strings.TrimSuffix(f.Obligation, "*"))) {
			return f
		}
	}
	return nil
}

// propDeps: a property's check also discharges the obligations of the properties it is built on
// (one level): e.g. unmarshalling (C05) is lexing strings (C20), scoping (C02), building blocks (C03),
// selecting them (C04) and binding (C15); the file format (C14) is what Dump/Load write and read (C09).
var propDeps = map[string][]string{
	// what a program means (C01-C04) is stated over well-formed code: the compiler side of C10
	"C01": {"C10"},
	"C02": {"C10"},
	"C03": {"C02", "C04", "C10"},
	"C04": {"C10"},
	"C05": {"C01", "C02", "C03", "C04", "C15", "C20", "C10"},
	"C06": {"C10"}, // the VM is safe on well-formed code: what the compiler emits (C10) is its hypothesis
	"C07": {"C08", "C11", "C20"},
	"C08": {"C07"},
	"C09": {"C13", "C14"},
	"C11": {"C07"},
	"C12": {"C16"},
	"C13": {"C09"},
	"C14": {"C09", "C18"}, // the files users keep are written by the command line tool
	"C15": {"C05"},
	"C16": {"C12"},
	"C17": {"C20", "C01", "C02"},
	"C18": {"C11", "C09"}, // the tool reads FILE and standard input through the file pipeline; --bdump/--bload reproduce a direct run only if the round trip holds
	"C19": {"C08"},
	"C20": {"C07", "C17"},
}

func hasProp(props []string, p string) bool {
	if p == "" || p == "all" {
		return true
	}
	if contains(props, p) || contains(props, "*") {
		return true
	}
	for _, q := range propDeps[p] {
		if contains(props, q) {
			return true
		}
	}
	return false
}

type Checker struct {
	relX *Exec
	P    *Program
	C    *Contracts
	Eff  *Effects
	prop string
	jobs []job
	toolErrs []string
	funcsUnder []string
	framesOnly []string // functions verified only for their frame (callees of the functions of this property)
	frameReach map[*ssa.Function]bool
	abstractions map[string]bool
	only string
}

func (ck *Checker) addObls(x *Exec, obls []*Obligation) {
	for _, o := range obls {
		if !hasProp(o.Props, ck.prop) {
			continue
		}
		ck.jobs = append(ck.jobs, job{o, x.Reg})
	}
	for _, l := range x.limits {
		ck.abstractions[l] = true
	}
}

// frameClosure: every function that the functions verified for this property may call, directly or
// not (static calls, closures, function values, goroutines).
func (ck *Checker) frameClosure() map[*ssa.Function]bool {
	if ck.frameReach != nil {
		return ck.frameReach
	}
	ck.frameReach = map[*ssa.Function]bool{}
	if ck.only != "" || ck.prop == "" || ck.prop == "all" {
		return ck.frameReach
	}
	var roots []*ssa.Function
	for _, name := range ck.C.SortedFuncNames() {
		fc := ck.C.Funcs[name]
		if fc.Extern || fc.Slot || fc.Trusted {
			continue
		}
		fn := ck.P.Lookup(name)
		if fn == nil {
			continue
		}
		if ck.relevantTo(fn, fc) {
			roots = append(roots, fn)
		}
	}
	ck.frameReach = ck.Eff.reachableWithGo(roots...)
	return ck.frameReach
}

func (ck *Checker) relevantTo(fn *ssa.Function, fc *FuncContract) bool {
	if hasProp(fc.Props, ck.prop) {
		return true
	}
	all := append(append(append([]*Clause{}, fc.Requires...), fc.Ensures...), fc.Asserts...)
	for _, cls := range fc.LoopInv {
		all = append(all, cls...)
	}
	for _, cls := range fc.LoopStep {
		all = append(all, cls...)
	}
	for _, cls := range fc.LoopVar {
		all = append(all, cls...)
	}
	for _, cl := range all {
		if hasProp(cl.Props, ck.prop) {
			return true
		}
	}
	return ck.indirectlyRelevant(fn, fc)
}

func (ck *Checker) collect() {
	ck.abstractions = map[string]bool{}
	// functions under contract
	for _, name := range ck.C.SortedFuncNames() {
		fc := ck.C.Funcs[name]
		if fc.Extern || fc.Slot || fc.Trusted || fc.Implements != "" {
			continue
		}
		if ck.only != "" && ck.only != name {
			continue
		}
		relevant := hasProp(fc.Props, ck.prop)
		if !relevant {
			// a clause tagged with the property?
			all := append(append(append([]*Clause{}, fc.Requires...), fc.Ensures...), fc.Asserts...)
			for _, cls := range fc.LoopInv {
				all = append(all, cls...)
			}
			for _, cls := range fc.LoopStep {
				all = append(all, cls...)
			}
			for _, cls := range fc.LoopVar {
				all = append(all, cls...)
			}
			for _, cl := range all {
				if hasProp(cl.Props, ck.prop) {
					relevant = true
				}
			}
		}
		fn := ck.P.Lookup(name)
		if !relevant && fn != nil && ck.prop != "C06" {
			relevant = ck.indirectlyRelevant(fn, fc)
		}
		frameOnly := false
		if !relevant && ck.prop != "C06" {
			// not verified for this property, but called (directly or not) by functions that are: they rely
			// on its declared frame, so its frame obligations belong to this run as well
			if fn == nil || !fc.HasMod || !ck.frameClosure()[fn] {
				continue
			}
			frameOnly = true
		}
		if fn == nil {
			ck.toolErrs = append(ck.toolErrs, fmt.Sprintf("function under contract not found in the package: %s (%s)", name, fc.Where))
			continue
		}
		x := NewExec(ck.P, ck.C, fc.Mode)
		x.Eff = ck.Eff
		x.Prop = ck.prop
		obls, err := x.VerifyFunc(fn, fc, name)
		if err != nil {
			ck.toolErrs = append(ck.toolErrs, err.Error())
		}
		if frameOnly {
			var fr []*Obligation
			for _, o := range obls {
				if o.Kind == "frame" {
					fr = append(fr, o)
				}
			}
			ck.framesOnly = append(ck.framesOnly, name)
			ck.addObls(x, fr)
			continue
		}
		ck.funcsUnder = append(ck.funcsUnder, name)
		ck.addObls(x, obls)
		// declared frame
		if fc.HasMod && hasProp(fc.Props, ck.prop) {
			bad := ck.Eff.CheckModifies(fn, fc)
			o := &Obligation{Name: name + "/frame", Func: name, Kind: "frame", Props: fc.Props, Goal: "true", Folded: true, Where: fc.Where, Src: "modifies clause covers inferred writes"}
			if len(bad) > 0 {
				o.Goal = "false"
				o.Folded = false
				o.Src = "writes outside the declared frame: " + strings.Join(bad, ", ")
			}
			ck.jobs = append(ck.jobs, job{o, x.Reg})
		}
	}
	// slot conformance
	for sname, sc := range ck.C.Slots {
		slotRelevant := hasProp(sc.Props, ck.prop) || ck.prop == "C06"
		for _, fn := range slotMembers(ck.P, sname) {
			name := ck.P.FuncName(fn)
			if ck.only != "" && ck.only != name {
				continue
			}
			if !slotRelevant && !(sc.HasMod && ck.frameClosure()[fn]) {
				continue
			}
			x := NewExec(ck.P, ck.C, sc.Mode)
			x.Eff = ck.Eff
			x.Prop = ck.prop
			use := sc
			if own, ok := ck.C.Funcs[name]; ok && own.Implements == sname {
				// merge the function's own assertions and loop clauses into the slot contract
				m := *sc
				m.Asserts = append(append([]*Clause{}, sc.Asserts...), own.Asserts...)
				m.LoopInv = own.LoopInv
				m.LoopVar = own.LoopVar
				m.Uses = append(append([]string{}, sc.Uses...), own.Uses...)
				m.LocalAlias = own.LocalAlias
				if own.SlotOf != nil {
					m.SlotOf = own.SlotOf
				}
				m.Ensures = append(append([]*Clause{}, sc.Ensures...), own.Ensures...)
				m.Props = append(append([]string{}, sc.Props...), own.Props...)
				use = &m
			}
			obls, err := x.VerifyFunc(fn, use, name+"/slot:"+sname)
			if err != nil {
				ck.toolErrs = append(ck.toolErrs, err.Error())
			}
			if !slotRelevant {
				var fr []*Obligation
				for _, o := range obls {
					if o.Kind == "frame" {
						fr = append(fr, o)
					}
				}
				obls = fr
			}
			ck.addObls(x, obls)
		}
	}
	// disciplines decided by the effect analysis
	if ck.only == "" || ck.only == "discipline" {
		reg := NewRegistry()
		for _, o := range ck.disciplineObligations() {
			if hasProp(o.Props, ck.prop) {
				ck.jobs = append(ck.jobs, job{o, reg})
			}
		}
	}
	// lemmas
	for _, ln := range ck.C.LemmaOrder {
		lm := ck.C.Lemmas[ln]
		if lm.Axiom || !hasProp(lm.Props, ck.prop) {
			continue
		}
		if ck.only != "" && ck.only != "lemma:"+ln {
			continue
		}
		x := NewExec(ck.P, ck.C, lm.Mode)
		x.Eff = ck.Eff
		x.curPkg = ck.P.TPkgs["bcl"]
		x.fname = "lemma:" + ln
		func() {
			defer func() {
				if r := recover(); r != nil {
					if tl, ok := r.(toolLimit); ok {
						ck.toolErrs = append(ck.toolErrs, "lemma "+ln+": "+tl.msg)
						return
					}
					panic(r)
				}
			}()
			f := x.lemmaProofGoal(lm)
			o := &Obligation{Name: "lemma/" + ln, Func: "lemma:" + ln, Kind: "lemma", Props: lm.Props, Goal: f, Where: lm.Where, Src: strings.Join(lm.Src, "; "), Mode: lm.Mode}
			ck.jobs = append(ck.jobs, job{o, x.Reg})
		}()
	}
	// constant tables
	for i, cc := range ck.C.Consts {
		if !hasProp(cc.Props, ck.prop) {
			continue
		}
		x := NewExec(ck.P, ck.C, ModeMath)
		x.curPkg = ck.P.TPkgs["bcl"]
		if cc.Pkg != "" {
			x.curPkg = ck.P.TPkgs[cc.Pkg]
		}
		x.fname = "const"
		label := cc.Label
		if label == "" {
			label = fmt.Sprint(i + 1)
		}
		func() {
			defer func() {
				if r := recover(); r != nil {
					if tl, ok := r.(toolLimit); ok {
						ck.toolErrs = append(ck.toolErrs, "const "+label+": "+tl.msg)
						return
					}
					panic(r)
				}
			}()
			env := &Env{x: x, st: &State{cells: map[*Cell]*Value{}, heaps: map[string]string{}, hsort: map[string]string{}, ghost: map[string]*Value{}}, vars: map[string]*Value{}, pkg: x.curPkg}
			env.old = env.st
			g := x.evalBool(env, cc.Expr)
			o := &Obligation{Name: "const/" + label, Func: "const", Kind: "const", Props: cc.Props, Goal: g, Where: cc.Where, Src: cc.Src}
			if g == "true" {
				o.Folded = true
			}
			ck.jobs = append(ck.jobs, job{o, x.Reg})
		}()
	}
}

// slotMembers finds the functions stored into a slot.
func slotMembers(p *Program, slot string) []*ssa.Function {
	seen := map[*ssa.Function]bool{}
	var out []*ssa.Function
	add := func(v ssa.Value) {
		var fn *ssa.Function
		for {
			if ct, ok := v.(*ssa.ChangeType); ok {
				v = ct.X
				continue
			}
			break
		}
		switch vv := v.(type) {
		case *ssa.Function:
			fn = vv
		case *ssa.MakeClosure:
			fn, _ = vv.Fn.(*ssa.Function)
			if fn != nil && fn.Synthetic != "" {
				// bound method wrapper: the method itself
				for _, b := range fn.Blocks {
					for _, ins := range b.Instrs {
						if c, ok := ins.(*ssa.Call); ok {
							if sc := c.Common().StaticCallee(); sc != nil {
								fn = sc
							}
						}
					}
				}
			}
		}
		if fn != nil && !seen[fn] && p.InVerifiedPkg(fn) {
			seen[fn] = true
			out = append(out, fn)
		}
	}
	for _, f := range p.All {
		for _, b := range f.Blocks {
			for _, ins := range b.Instrs {
				switch ins := ins.(type) {
				case *ssa.Store:
					if slotOfAddr(ins.Addr) == slot || namedTypeName(ins.Val.Type()) == slot {
						add(ins.Val)
					}
				case *ssa.Return:
					for _, r := range ins.Results {
						if namedTypeName(r.Type()) == slot {
							add(r)
						}
					}
				case *ssa.ChangeType:
					if namedTypeName(ins.Type()) == slot {
						add(ins.X)
					}
				case ssa.CallInstruction:
					cc := ins.Common()
					sig := cc.Signature()
					for i, a := range cc.Args {
						j := i
						if !cc.IsInvoke() && sig.Recv() != nil {
							j = i - 1
						}
						if j >= 0 && j < sig.Params().Len() {
							if namedTypeName(sig.Params().At(j).Type()) == slot {
								add(a)
							}
						}
						// slots named callee.param
						if sc := cc.StaticCallee(); sc != nil && j >= 0 && j < len(sc.Params) {
							if sc.Name()+"."+sc.Params[i].Name() == slot {
								add(a)
							}
						}
					}
				}
			}
		}
	}
	sort.Slice(out, func(i, j int) bool { return p.FuncName(out[i]) < p.FuncName(out[j]) })
	return out
}

func cmdCheck(args []string) int {
	fs := flag.NewFlagSet("check", flag.ExitOnError)
	prop := fs.String("property", "", "property id")
	tier := fs.String("tier", "quick", "quick|thorough")
	only := fs.String("func", "", "only this function")
	repo := fs.String("repo", "/repo", "repository directory")
	keep := fs.Bool("keep", false, "keep SMT scripts")
	verbose := fs.Bool("v", false, "verbose")
	noEvidence := fs.Bool("no-evidence", false, "do not write evidence")
	fs.Parse(args)
	if t := os.Getenv("VERIF_TIER"); t != "" && *tier == "quick" {
		*tier = t
	}
	t0 := time.Now()
	p, c, err := loadAll(*repo)
	if err != nil {
		fmt.Println("ERROR loading:", err)
		// a tree that does not load is reported as a tool error, not as a violation
		return 2
	}
	ck := &Checker{P: p, C: c, Eff: NewEffects(p, c), prop: *prop, only: *only}
	ck.collect()
	tGen := time.Since(t0)
	work := filepath.Join(verifDir, "work", "smt_"+*prop+"_"+fmt.Sprint(os.Getpid()))
	dis := NewDischarger(work, *tier == "thorough")
	results := make([]*OblResult, len(ck.jobs))
	var wg sync.WaitGroup
	sem := make(chan struct{}, 16)
	// reachability canaries: per function, stop at the first return shown reachable
	vac := map[string][]int{}
	for i, j := range ck.jobs {
		if j.o.Kind == "vacuity" {
			vac[j.o.Name] = append(vac[j.o.Name], i)
		}
	}
	for _, idxs := range vac {
		wg.Add(1)
		sem <- struct{}{}
		go func(idxs []int) {
			defer wg.Done()
			defer func() { <-sem }()
			unknowns := 0
			for _, i := range idxs {
				results[i] = dis.DischargeVacuity(ck.jobs[i].reg, ck.jobs[i].o)
				if results[i].Status == "proved" && results[i].Res.Status == "sat" {
					break
				}
				if results[i].Status == "proved" {
					unknowns++
					if unknowns >= 3 {
						break // neither reachable nor unreachable shown: give up (not vacuous)
					}
				}
			}
		}(idxs)
	}
	// batches: obligations of one site on one path are first tried as one conjunction
	type bkey struct {
		reg *Registry
		id  int
	}
	batches := map[bkey][]int{}
	inBatch := map[int]bool{}
	for i, j := range ck.jobs {
		if j.o.Batch != 0 && j.o.Kind != "vacuity" && !j.o.Folded {
			k := bkey{j.reg, j.o.Batch}
			batches[k] = append(batches[k], i)
		}
	}
	for k, idxs := range batches {
		if len(idxs) < 2 {
			continue
		}
		for _, i := range idxs {
			inBatch[i] = true
		}
		wg.Add(1)
		sem <- struct{}{}
		go func(k bkey, idxs []int) {
			defer wg.Done()
			defer func() { <-sem }()
			var goals []string
			for _, i := range idxs {
				goals = append(goals, ck.jobs[i].o.Goal)
			}
			first := ck.jobs[idxs[0]].o
			bo := &Obligation{Name: first.Name + "+batch", Goal: and(goals...), Items: first.Items, Where: first.Where, Src: "batch"}
			br := dis.DischargeBatch(k.reg, bo)
			if br {
				for _, i := range idxs {
					results[i] = &OblResult{O: ck.jobs[i].o, Status: "proved", Res: SolveResult{Status: "unsat", Solver: "z3-new(batch)"}}
				}
				return
			}
			for _, i := range idxs {
				results[i] = dis.Discharge(ck.jobs[i].reg, ck.jobs[i].o)
			}
		}(k, idxs)
	}
	for i, j := range ck.jobs {
		if j.o.Kind == "vacuity" || inBatch[i] {
			continue
		}
		wg.Add(1)
		sem <- struct{}{}
		go func(i int, j job) {
			defer wg.Done()
			defer func() { <-sem }()
			results[i] = dis.Discharge(j.reg, j.o)
		}(i, j)
	}
	wg.Wait()
	rep := buildReport(ck, dis, results, *prop, *tier, time.Since(t0).Seconds(), tGen.Seconds(), *verbose)
	if *tier == "thorough" && *only == "" && os.Getenv("GOVC_NO_CANARIES") == "" {
		rep.canaries = runCanaries(*prop, *repo)
	}
	if !*noEvidence && *prop != "" && *only == "" {
		writeEvidence(rep)
	}
	if !*keep {
		os.RemoveAll(work)
	}
	return rep.exit
}

// runCanaries (thorough tier): every kept seeded change of this property is applied to a scratch
// copy of the repository (never to the repository itself) and the quick check is run on the copy;
// it must report a violation. This shows on every thorough run that the obligations of the property
// have not become vacuous on the current tree. Results go to the evidence; they do not change the
// exit status (a change that no longer applies to the current tree is skipped).
func runCanaries(prop, repo string) []map[string]any {
	dirs, _ := filepath.Glob(filepath.Join(verifDir, "seeded", "*", "meta.json"))
	sort.Strings(dirs)
	self, _ := os.Executable()
	type item struct {
		id, patch string
	}
	var items []item
	for _, mf := range dirs {
		b, err := os.ReadFile(mf)
		if err != nil {
			continue
		}
		var meta struct {
			ID       string `json:"id"`
			Property string `json:"property"`
		}
		if json.Unmarshal(b, &meta) != nil || meta.Property != prop {
			continue
		}
		items = append(items, item{meta.ID, filepath.Join(filepath.Dir(mf), "patch.diff")})
	}
	results := make([]map[string]any, len(items))
	one := func(k int) {
		it := items[k]
		res := map[string]any{"seeded": it.id}
		results[k] = res
		tmp, err := os.MkdirTemp("", "govc_canary_")
		if err != nil {
			res["applied"] = false
			return
		}
		defer os.RemoveAll(tmp)
		if err := exec.Command("cp", "-r", repo+"/.", tmp).Run(); err != nil {
			res["applied"] = false
			return
		}
		if err := exec.Command("git", "-C", tmp, "apply", it.patch).Run(); err != nil {
			res["applied"] = false
			return
		}
		res["applied"] = true
		ctx, cancel := context.WithTimeout(context.Background(), 15*time.Minute)
		defer cancel()
		cmd := exec.CommandContext(ctx, self, "check", "--property", prop, "--tier", "quick", "--no-evidence", "--repo", tmp)
		cmd.Env = append(os.Environ(), "GOVC_NO_CANARIES=1", "GOVC_REPLAY_DIR="+filepath.Join(tmp, ".govc_replays"), "VERIF_TIER=quick")
		ob, _ := cmd.CombinedOutput()
		n := strings.Count(string(ob), "\nVIOLATION ")
		if strings.HasPrefix(string(ob), "VIOLATION ") {
			n++
		}
		res["violations_reported"] = n
		res["caught"] = n > 0 && cmd.ProcessState != nil && cmd.ProcessState.ExitCode() == 1
	}
	// three canaries at a time (each is a full quick check that uses all cores for its solver runs)
	sem := make(chan struct{}, 3)
	var wg sync.WaitGroup
	for k := range items {
		wg.Add(1)
		sem <- struct{}{}
		go func(k int) {
			defer wg.Done()
			defer func() { <-sem }()
			one(k)
		}(k)
	}
	wg.Wait()
	return results
}

// cmdLocals prints (for the contract files) which local each local name used in a contract denotes
// on the current tree: `local <name> <k> <type>` = the k-th named local of that type in source order.
// The output is committed as contracts_zz_locals_verif.go; it is only consulted when a contract
// names a local that no longer exists (a renamed local is then found by type and position).
func cmdLocals(args []string) {
	repo := "/repo"
	if len(args) > 0 {
		repo = args[0]
	}
	p, c, err := loadAll(repo)
	if err != nil {
		fmt.Println("ERROR loading:", err)
		os.Exit(2)
	}
	out := map[string]*strings.Builder{"": {}, "main": {}}
	// the promises of a function are evaluated in the goroutines it starts: the locals they name are
	// locals of those closures
	extra := map[string]map[string]bool{}
	for _, name := range c.SortedFuncNames() {
		fc := c.Funcs[name]
		fn := p.Lookup(name)
		if fn == nil || len(fc.Promises) == 0 {
			continue
		}
		for _, an := range fn.AnonFuncs {
			an := p.FuncName(an)
			if extra[an] == nil {
				extra[an] = map[string]bool{}
			}
			for _, cl := range fc.Promises {
				for _, id := range identsOf(cl.Expr) {
					extra[an][id] = true
				}
			}
		}
	}
	for _, name := range c.SortedFuncNames() {
		fc := c.Funcs[name]
		if fc.Extern || fc.Slot {
			continue
		}
		fn := p.Lookup(name)
		if fn == nil || fn.Blocks == nil {
			continue
		}
		ids := map[string]bool{}
		for id := range extra[name] {
			ids[id] = true
		}
		add := func(cls []*Clause) {
			for _, cl := range cls {
				for _, id := range identsOf(cl.Expr) {
					ids[id] = true
				}
			}
		}
		add(fc.Requires)
		add(fc.Ensures)
		add(fc.Asserts)
		add(fc.Promises)
		for _, cls := range fc.LoopInv {
			add(cls)
		}
		for _, cls := range fc.LoopStep {
			add(cls)
		}
		for _, cls := range fc.LoopVar {
			add(cls)
		}
		for _, cls := range fc.LoopAssume {
			add(cls)
		}
		for _, m := range fc.Modifies {
			for _, id := range identsOf(m.Expr) {
				ids[id] = true
			}
		}
		for v := range fc.SlotOf {
			ids[v] = true
		}
		names, typs := namedLocals(fn)
		count := map[string]int{}
		var lines []string
		for i, n := range names {
			count[typs[i]]++
			if ids[n] {
				lines = append(lines, fmt.Sprintf("//@   local %s %d %s", n, count[typs[i]], typs[i]))
			}
		}
		if len(lines) == 0 {
			continue
		}
		pk := ""
		short := name
		if strings.HasPrefix(name, "main.") {
			pk, short = "main", strings.TrimPrefix(name, "main.")
		}
		fmt.Fprintf(out[pk], "//@ func %s\n%s\n", short, strings.Join(lines, "\n"))
	}
	hdr := "//go:build verif\n\n// GENERATED by `govc locals` - do not edit. For every local variable that a contract mentions by\n// name: its position among the named locals of its type. Consulted only when a contract names a\n// local that no longer exists, so that renaming a local does not break the proofs.\n\npackage %s\n\n%s//@ group\n"
	os.WriteFile(filepath.Join(repo, "contracts_zz_locals_verif.go"), []byte(fmt.Sprintf(hdr, "bcl", "")+out[""].String()), 0o644)
	os.WriteFile(filepath.Join(repo, "cmd/bcl/contracts_zz_locals_verif.go"), []byte(fmt.Sprintf(hdr, "main", "//@ pkg main\n")+out["main"].String()), 0o644)
	fmt.Println("written")
}

// indirectlyRelevant: obligations tagged with the property can arise inside fn although none of fn's own
// clauses carries the tag: invariants of its parameter types, preconditions / parameter invariants of the
// functions it calls or starts, slot and interface-method contracts, channel promises.
func (ck *Checker) indirectlyRelevant(fn *ssa.Function, fc *FuncContract) bool {
	if ck.relX == nil {
		ck.relX = NewExec(ck.P, ck.C, fc.Mode)
	}
	x := ck.relX
	invsOf := func(f *ssa.Function, c *FuncContract) bool {
		for _, inv := range ck.C.Invs {
			if c != nil && (c.NoInv[inv.Name] || c.NoInv["*"]) {
				continue
			}
			if !hasProp(inv.Props, ck.prop) {
				continue
			}
			for _, p := range f.Params {
				if x.typeMatches(p.Type(), inv.Type) {
					return true
				}
			}
		}
		return false
	}
	if invsOf(fn, fc) {
		return true
	}
	clauseHas := func(c *FuncContract) bool {
		if c == nil {
			return false
		}
		for _, r := range c.Requires {
			if hasProp(r.Props, ck.prop) || (len(r.Props) == 0 && hasProp(c.Props, ck.prop)) {
				return true
			}
		}
		return false
	}
	dynamic := false
	var visit func(f *ssa.Function, depth int) bool
	seen := map[*ssa.Function]bool{}
	visit = func(f *ssa.Function, depth int) bool {
		if seen[f] || depth > 3 {
			return false
		}
		seen[f] = true
		for _, b := range f.Blocks {
			for _, ins := range b.Instrs {
				switch i := ins.(type) {
				case *ssa.Send, *ssa.Select:
					for _, ofc := range ck.C.Funcs {
						for _, pr := range ofc.Promises {
							if hasProp(pr.Props, ck.prop) {
								return true
							}
						}
					}
				case *ssa.UnOp:
					if i.Op.String() == "<-" {
						for _, ofc := range ck.C.Funcs {
							for _, pr := range ofc.Promises {
								if hasProp(pr.Props, ck.prop) {
									return true
								}
							}
						}
					}
				}
				ci, ok := ins.(ssa.CallInstruction)
				if !ok {
					continue
				}
				cc := ci.Common()
				if cc.IsInvoke() {
					dynamic = true
					continue
				}
				sc := cc.StaticCallee()
				if sc == nil {
					if mc, ok := cc.Value.(*ssa.MakeClosure); ok {
						sc, _ = mc.Fn.(*ssa.Function)
					}
				}
				if sc == nil {
					if _, isB := cc.Value.(*ssa.Builtin); !isB {
						dynamic = true
					}
					continue
				}
				cname := ck.P.FuncName(sc)
				cfc := ck.C.Funcs[cname]
				if cfc == nil {
					if a := ck.P.ClosureAlias(sc); a != "" {
						cfc = ck.C.Funcs[a]
					}
				}
				if cfc != nil {
					if clauseHas(cfc) || (sc.Blocks != nil && invsOf(sc, cfc)) {
						return true
					}
				} else if sc.Blocks != nil && ck.P.InVerifiedPkg(sc) {
					// contract-less helper: inlined, look inside
					if visit(sc, depth+1) {
						return true
					}
				}
			}
		}
		return false
	}
	if visit(fn, 0) {
		return true
	}
	if dynamic {
		for _, sc := range ck.C.Slots {
			if clauseHas(sc) {
				return true
			}
		}
		for _, ofc := range ck.C.Funcs {
			if ofc.Extern && strings.HasPrefix(ofc.Name, "(") && clauseHas(ofc) {
				return true
			}
		}
	}
	return false
}
