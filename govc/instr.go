package main

// Instruction semantics.

import (
	"fmt"
	"go/constant"
	"go/token"
	"go/types"
	"math"
	"strings"

	"golang.org/x/tools/go/ssa"
)

func float64bits(f float64) uint64 { return math.Float64bits(f) }

func (x *Exec) step(st *State, fr *Frame, ins ssa.Instruction) {
	switch ins := ins.(type) {
	case *ssa.Alloc:
		x.doAlloc(st, fr, ins)
	case *ssa.Store:
		addr := x.get(st, ins.Addr)
		val := x.get(st, ins.Val)
		p := x.ptrOfChecked(st, addr, ins)
		x.storeVal(st, p, val, ins)
	case *ssa.UnOp:
		fr.Regs[ins] = x.unop(st, ins)
	case *ssa.BinOp:
		fr.Regs[ins] = x.binop(st, ins.Op, x.get(st, ins.X), x.get(st, ins.Y), ins.Type(), ins)
	case *ssa.FieldAddr:
		base := x.get(st, ins.X)
		p := x.ptrOfChecked(st, base, ins)
		fr.Regs[ins] = &Value{Typ: ins.Type(), Ptr: x.fieldAddr(p, ins.Field)}
	case *ssa.Field:
		v := x.get(st, ins.X)
		fr.Regs[ins] = x.fieldOf(st, v, ins.Field)
	case *ssa.IndexAddr:
		fr.Regs[ins] = x.indexAddr(st, ins)
	case *ssa.Index:
		fr.Regs[ins] = x.index(st, ins)
	case *ssa.Slice:
		fr.Regs[ins] = x.slice(st, ins)
	case *ssa.Phi:
		for i, pred := range fr.Block.Preds {
			if pred == fr.Prev {
				fr.Regs[ins] = x.get(st, ins.Edges[i])
				return
			}
		}
		x.limit("phi: predecessor not found")
	case *ssa.Extract:
		t := x.get(st, ins.Tuple)
		if t.Tup == nil || ins.Index >= len(t.Tup) {
			x.limit("extract from non-tuple at %s", x.P.Pos(instrPos(ins)))
		}
		fr.Regs[ins] = t.Tup[ins.Index]
	case *ssa.Call:
		args := x.callArgs(st, ins.Common())
		var fnv *Value
		if !ins.Common().IsInvoke() {
			fnv = x.get(st, ins.Common().Value)
		} else {
			fnv = x.get(st, ins.Common().Value)
		}
		x.call(st, fr, ins.Common(), args, fnv, ins, false)
	case *ssa.Defer:
		args := x.callArgs(st, ins.Common())
		fnv := x.get(st, ins.Common().Value)
		fr.Defers = append(fr.Defers, &Defer{Call: ins.Common(), Args: args, Fn: fnv, Pos: ins})
	case *ssa.Go:
		args := x.callArgs(st, ins.Common())
		fnv := x.get(st, ins.Common().Value)
		x.goStmt(st, fr, ins, args, fnv)
	case *ssa.MakeInterface:
		fr.Regs[ins] = x.makeInterface(st, x.get(st, ins.X), ins.X.Type(), ins.Type())
	case *ssa.TypeAssert:
		fr.Regs[ins] = x.typeAssert(st, ins)
	case *ssa.ChangeType:
		v := *x.get(st, ins.X)
		v.Typ = ins.Type()
		fr.Regs[ins] = &v
	case *ssa.ChangeInterface:
		v := x.get(st, ins.X)
		fr.Regs[ins] = x.changeInterface(st, v, ins.Type())
	case *ssa.Convert:
		fr.Regs[ins] = x.convert(st, x.get(st, ins.X), ins.Type(), ins)
	case *ssa.MakeClosure:
		var bs []*Value
		for _, b := range ins.Bindings {
			bs = append(bs, x.get(st, b))
		}
		fr.Regs[ins] = &Value{Typ: ins.Type(), Fn: &FuncVal{Fn: ins.Fn.(*ssa.Function), Bindings: bs}}
	case *ssa.MakeSlice:
		fr.Regs[ins] = x.makeSlice(st, ins)
	case *ssa.MakeMap:
		fr.Regs[ins] = x.makeMap(st, ins)
	case *ssa.MakeChan:
		v := x.fresh("chan", ins.Type())
		st.assume(app(">", v.T, "0"))
		fr.Regs[ins] = v
	case *ssa.MapUpdate:
		x.mapUpdate(st, ins)
	case *ssa.Lookup:
		fr.Regs[ins] = x.lookup(st, ins)
	case *ssa.Range:
		fr.Regs[ins] = x.rangeIter(st, ins)
	case *ssa.Next:
		fr.Regs[ins] = x.next(st, ins)
	case *ssa.Send:
		x.send(st, ins)
	case *ssa.Select:
		fr.Regs[ins] = x.selectStmt(st, ins)
	default:
		x.limit("unsupported instruction %T at %s", ins, x.P.Pos(instrPos(ins)))
	}
}

// ---------------------------------------------------------------------------

func (x *Exec) doAlloc(st *State, fr *Frame, ins *ssa.Alloc) {
	el := ins.Type().(*types.Pointer).Elem()
	name := ins.Comment
	if name == "" {
		name = "tmp"
	}
	fr.AllocSeq = append(fr.AllocSeq, ins)
	_, isStruct := structOf(el)
	_, isArray := el.Underlying().(*types.Array)
	if isArray || (isStruct && ins.Heap) {
		ref := x.newRef(st, name)
		p := &Pointer{Kind: PObj, Ref: ref, Obj: el, Typ: el}
		// zero-initialise
		if isArray {
			hn, hs := x.elemHeapName(el.Underlying().(*types.Array).Elem())
			x.setHeap(st, hn, hs, app("store", x.heap(st, hn, hs), ref, x.Sorts.Zero(el)))
		} else {
			stt, _ := structOf(el)
			for i := 0; i < stt.NumFields(); i++ {
				hn, hs := x.fieldHeapName(el, i)
				x.setHeap(st, hn, hs, app("store", x.heap(st, hn, hs), ref, x.Sorts.Zero(stt.Field(i).Type())))
			}
		}
		fr.Allocs[ins] = p
		fr.Regs[ins] = &Value{Typ: ins.Type(), Ptr: p, T: ref}
		return
	}
	c := x.newCell(name, el)
	if name == "defer$stack" {
		st.cells[c] = &Value{Typ: el}
	} else {
		st.cells[c] = x.zeroValue(el)
	}
	p := &Pointer{Kind: PCell, Cell: c, Typ: el}
	fr.Allocs[ins] = p
	fr.Regs[ins] = &Value{Typ: ins.Type(), Ptr: p}
}

func (x *Exec) zeroValue(t types.Type) *Value {
	switch {
	case isIntType(t):
		return &Value{Typ: t, K: constant.MakeInt64(0)}
	case isBoolType(t):
		return &Value{Typ: t, K: constant.MakeBool(false)}
	case isStringType(t):
		return &Value{Typ: t, K: constant.MakeString("")}
	}
	return &Value{T: x.Sorts.Zero(t), Typ: t}
}

// Allocation model: a monotone counter `next`; every reference stored anywhere is
// below the counter value at the time it was stored (objects are allocated before
// they are referenced). A new object takes the current counter value.
func (x *Exec) nextTerm(st *State) string {
	if t, ok := st.heaps["!next"]; ok {
		return t
	}
	return x.alloc0()
}

func (x *Exec) alloc0() string {
	if !x.Reg.Has("alloc0") {
		x.Reg.Add("alloc0", "(declare-const alloc0 Int)")
		x.Reg.AddAxiom("alloc0", "alloc0_pos", "(assert (>= alloc0 1))")
	}
	return "alloc0"
}

func (x *Exec) newRef(st *State, name string) string {
	r := x.freshSort("new_"+name, "Int")
	st.assume(eq(r, x.nextTerm(st)))
	st.heaps["!next"] = app("+", r, "1")
	return r
}

// bumpNext: after a call or a loop havoc the counter is some later value.
func (x *Exec) bumpNext(st *State) {
	n := x.freshSort("next", "Int")
	st.assume(app(">=", n, x.nextTerm(st)))
	st.heaps["!next"] = n
}

// refBound states that a reference-like value read now is already allocated.
func (x *Exec) assumeAllocated(st *State, v *Value) {
	if v.T == "" || v.Typ == nil {
		return
	}
	switch v.Typ.Underlying().(type) {
	case *types.Pointer, *types.Map, *types.Chan:
		st.assume(app("<", v.T, x.nextTerm(st)))
	case *types.Slice:
		st.assume(app("<", app("s_arr", v.T), x.nextTerm(st)))
	}
}

func (x *Exec) ptrOfChecked(st *State, v *Value, ins ssa.Instruction) *Pointer {
	if v.Ptr != nil {
		if v.Ptr.Kind == PObj && v.T != "" && !strings.HasPrefix(v.T, "new_") {
			x.safety(st, "nil", not(eq(v.T, "0")), ins)
		}
		return v.Ptr
	}
	t := x.term(v)
	x.safety(st, "nil", not(eq(t, "0")), ins)
	return x.ptrOf(v)
}

func (x *Exec) fieldAddr(p *Pointer, field int) *Pointer {
	if p.Kind == PObj && len(p.Path) == 0 {
		stt, ok := structOf(p.Obj)
		if !ok {
			x.limit("fieldAddr on non-struct object %s", p.Obj)
		}
		return &Pointer{Kind: PField, Ref: p.Ref, Obj: p.Obj, Field: field, Typ: stt.Field(field).Type()}
	}
	stt, ok := structOf(p.Typ)
	if !ok {
		x.limit("fieldAddr on non-struct location %s", p.Typ)
	}
	return p.withStep(Step{Field: field, Parent: p.Typ, Typ: stt.Field(field).Type()})
}

func (x *Exec) fieldOf(st *State, v *Value, field int) *Value {
	stt, ok := structOf(v.Typ)
	if !ok {
		x.limit("Field on non-struct %s", v.Typ)
	}
	sn := x.Sorts.structSort(v.Typ, stt)
	ft := stt.Field(field).Type()
	r := &Value{T: app(x.Sorts.fieldSel(sn, stt, field), x.term(v)), Typ: ft}
	if _, isSig := ft.Underlying().(*types.Signature); isSig {
		r.Slot = x.slotName(v.Typ, stt.Field(field).Name())
	}
	x.assumeTypeInv(st, r)
	return r
}

func (x *Exec) slotName(t types.Type, field string) string {
	n := types.TypeString(t, func(p *types.Package) string { return "" })
	return n + "." + field
}

func (x *Exec) storeVal(st *State, p *Pointer, v *Value, ins ssa.Instruction) {
	if p.Kind == PGlobal {
		hn := "G_" + sanitize(p.Glob)
		x.setHeap(st, hn, x.Sorts.SortOf(globalElemType(p)), x.updateGlobal(st, p, v))
		return
	}
	// Go-level values (closures, pointers to cells, iterators) can only live in cells
	if v.T == "" && v.K == nil && (v.Fn != nil || v.Ptr != nil || v.Tup != nil || v.It != nil) {
		if p.Kind == PCell && len(p.Path) == 0 {
			st.cells[p.Cell] = v
			return
		}
		if v.Fn != nil {
			x.store(st, p, &Value{T: fmt.Sprint(x.fnID(v.Fn.Fn)), Typ: v.Typ})
			x.noteFnStore(p, v.Fn)
			return
		}
		if v.Ptr != nil && v.Ptr.Kind == PObj && len(v.Ptr.Path) == 0 {
			x.store(st, p, &Value{T: v.Ptr.Ref, Typ: v.Typ})
			return
		}
		x.limit("store of a Go-level value (%s) into the heap at %s", v.Typ, x.P.Pos(instrPos(ins)))
	}
	x.store(st, p, v)
}

func (x *Exec) noteFnStore(p *Pointer, f *FuncVal) {}

func (x *Exec) updateGlobal(st *State, p *Pointer, v *Value) string {
	hn := "G_" + sanitize(p.Glob)
	cur := x.heap(st, hn, x.Sorts.SortOf(globalElemType(p)))
	if len(p.Path) == 0 {
		return x.term(v)
	}
	return x.update(cur, p.Path, x.term(v))
}

func globalElemType(p *Pointer) types.Type {
	if len(p.Path) > 0 {
		return p.Path[0].Parent
	}
	return p.Typ
}

func (x *Exec) loadPtr(st *State, p *Pointer, ins ssa.Instruction) *Value {
	if p.Kind == PGlobal {
		return x.loadGlobal(st, p)
	}
	return x.load(st, p)
}

func (x *Exec) loadGlobal(st *State, p *Pointer) *Value {
	root := globalElemType(p)
	if v := x.knownGlobal(p.Glob, root); v != nil && len(p.Path) == 0 {
		return v
	}
	hn := "G_" + sanitize(p.Glob)
	t := x.heap(st, hn, x.Sorts.SortOf(root))
	for _, s := range p.Path {
		t = x.project(t, s)
	}
	v := &Value{T: t, Typ: p.Typ}
	if _, isSig := p.Typ.Underlying().(*types.Signature); isSig && len(p.Path) > 0 {
		last := p.Path[len(p.Path)-1]
		if !last.IsIdx {
			stt, _ := structOf(last.Parent)
			v.Slot = x.slotName(last.Parent, stt.Field(last.Field).Name())
		}
	}
	x.assumeTypeInv(st, v)
	return v
}

// knownGlobal: well-known immutable globals of the standard library.
func (x *Exec) knownGlobal(name string, t types.Type) *Value {
	switch name {
	case "io.EOF", "io.ErrUnexpectedEOF", "bufio.ErrBufferFull", "io.ErrShortWrite", "io.ErrNoProgress", "bufio.ErrNegativeCount":
		n := "glob_" + sanitize(name)
		if !x.Reg.Has(n) {
			x.Reg.Add(n, fmt.Sprintf("(declare-const %s Int)", n))
			ids := map[string]int{"io.EOF": 1, "io.ErrUnexpectedEOF": 2, "bufio.ErrBufferFull": 3, "io.ErrShortWrite": 4, "io.ErrNoProgress": 5, "bufio.ErrNegativeCount": 6}
			x.Reg.AddAxiom(n, n+"_val", fmt.Sprintf("(assert (= %s %d))", n, ids[name]))
		}
		return &Value{T: n, Typ: t}
	case "os.Stdout", "os.Stderr", "os.Stdin":
		n := "glob_" + sanitize(name)
		if !x.Reg.Has(n) {
			x.Reg.Add(n, fmt.Sprintf("(declare-const %s Int)", n))
			ids := map[string]int{"os.Stdout": 11, "os.Stderr": 12, "os.Stdin": 13}
			x.Reg.AddAxiom(n, n+"_val", fmt.Sprintf("(assert (= %s %d))", n, ids[name]))
		}
		return &Value{T: n, Typ: t}
	}
	return nil
}

// ---------------------------------------------------------------------------

func (x *Exec) unop(st *State, ins *ssa.UnOp) *Value {
	v := x.get(st, ins.X)
	switch ins.Op {
	case token.MUL: // load
		p := x.ptrOfChecked(st, v, ins)
		return x.loadPtr(st, p, ins)
	case token.NOT:
		if b, ok := v.isConstBool(); ok {
			return &Value{Typ: ins.Type(), K: constant.MakeBool(!b)}
		}
		return &Value{T: not(x.term(v)), Typ: ins.Type()}
	case token.SUB:
		if v.K != nil && v.K.Kind() == constant.Int {
			return x.wrapConst(constant.UnaryOp(token.SUB, v.K, 0), ins.Type())
		}
		if isFloatType(ins.Type()) {
			return &Value{T: app("fneg", x.term(v)), Typ: ins.Type()}
		}
		if isBVType(ins.Type(), x.Mode) {
			return &Value{T: app("bvneg", x.term(v)), Typ: ins.Type()}
		}
		return &Value{T: app("-", x.term(v)), Typ: ins.Type()}
	case token.XOR:
		if isBVType(ins.Type(), x.Mode) {
			return &Value{T: app("bvnot", x.term(v)), Typ: ins.Type()}
		}
		w, signed, _ := intInfo(ins.Type())
		if signed {
			return &Value{T: app("-", app("-", x.term(v)), "1"), Typ: ins.Type()}
		}
		return &Value{T: app("-", pow2(w)+" 1 "+x.term(v)), Typ: ins.Type()}
	case token.ARROW:
		return x.recv(st, ins, v)
	}
	x.limit("unsupported unary op %s", ins.Op)
	return nil
}

func pow2(w int) string {
	if w == 64 {
		return "18446744073709551616"
	}
	return fmt.Sprint(uint64(1) << uint(w))
}

func (x *Exec) wrapConst(k constant.Value, t types.Type) *Value {
	// wrap to the type's width (Go constant expressions never overflow, but
	// folded runtime arithmetic may)
	if w, signed, ok := intInfo(t); ok && k.Kind() == constant.Int {
		b, _ := t.Underlying().(*types.Basic)
		if b != nil && b.Info()&types.IsUntyped == 0 {
			mod := constant.Shift(constant.MakeInt64(1), token.SHL, uint(w))
			r := k
			if signed {
				half := constant.Shift(constant.MakeInt64(1), token.SHL, uint(w-1))
				r = constant.BinaryOp(r, token.ADD, half)
				r = cmod(r, mod)
				r = constant.BinaryOp(r, token.SUB, half)
			} else {
				r = cmod(r, mod)
			}
			k = r
		}
	}
	return &Value{Typ: t, K: k}
}

func cmod(a, m constant.Value) constant.Value {
	r := constant.BinaryOp(a, token.REM, m)
	if constant.Sign(r) < 0 {
		r = constant.BinaryOp(r, token.ADD, m)
	}
	return r
}

func (x *Exec) binop(st *State, op token.Token, a, b *Value, rt types.Type, ins ssa.Instruction) *Value {
	at := a.Typ
	// constant folding
	if a.K != nil && b.K != nil {
		if v := foldBinop(op, a.K, b.K, at); v != nil {
			if v.Kind() == constant.Bool {
				return &Value{Typ: rt, K: v}
			}
			if v.Kind() == constant.Int && isIntType(rt) {
				return x.wrapConst(v, rt)
			}
			if v.Kind() == constant.String {
				return &Value{Typ: rt, K: v}
			}
		}
	}
	switch {
	case isBoolType(at):
		ta, tb := x.term(a), x.term(b)
		switch op {
		case token.EQL:
			return &Value{T: eq(ta, tb), Typ: rt}
		case token.NEQ:
			return &Value{T: not(eq(ta, tb)), Typ: rt}
		case token.LAND, token.AND:
			return &Value{T: and(ta, tb), Typ: rt}
		case token.LOR, token.OR:
			return &Value{T: or(ta, tb), Typ: rt}
		}
	case isIntType(at):
		return x.intBinop(st, op, a, b, rt, ins)
	case isFloatType(at):
		ta, tb := x.term(a), x.term(b)
		f := map[token.Token]string{token.ADD: "fadd", token.SUB: "fsub", token.MUL: "fmul", token.QUO: "fdiv",
			token.LSS: "flt", token.GTR: "fgt", token.LEQ: "fle", token.GEQ: "fge", token.EQL: "feq"}
		if op == token.NEQ {
			return &Value{T: not(app("feq", ta, tb)), Typ: rt}
		}
		if fn, ok := f[op]; ok {
			return &Value{T: app(fn, ta, tb), Typ: rt}
		}
	case isStringType(at):
		ta, tb := x.term(a), x.term(b)
		switch op {
		case token.EQL:
			return &Value{T: eq(ta, tb), Typ: rt}
		case token.NEQ:
			return &Value{T: not(eq(ta, tb)), Typ: rt}
		case token.ADD:
			return &Value{T: app("scat", ta, tb), Typ: rt}
		case token.LSS:
			return &Value{T: app("slt", ta, tb), Typ: rt}
		case token.GTR:
			return &Value{T: app("slt", tb, ta), Typ: rt}
		case token.LEQ:
			return &Value{T: not(app("slt", tb, ta)), Typ: rt}
		case token.GEQ:
			return &Value{T: not(app("slt", ta, tb)), Typ: rt}
		}
	default:
		// pointers, interfaces, channels, funcs, maps: equality only
		if op == token.EQL || op == token.NEQ {
			var ta, tb string
			if isValIface(at) || isValIface(b.Typ) {
				ta, tb = x.term(a), x.term(b)
				// comparing two interface values holding uncomparable dynamic types panics
				x.safety(st, "ifacecmp", not(and(app("(_ is VBlock)", ta), app("(_ is VBlock)", tb))), ins)
			} else {
				ta, tb = x.refTerm(a), x.refTerm(b)
			}
			e := eq(ta, tb)
			if op == token.NEQ {
				e = not(e)
			}
			return &Value{T: e, Typ: rt}
		}
	}
	x.limit("unsupported binop %s on %s at %s", op, at, x.P.Pos(instrPos(ins)))
	return nil
}

func (x *Exec) refTerm(v *Value) string {
	if v.T != "" {
		return v.T
	}
	if v.Fn != nil {
		return fmt.Sprint(x.fnID(v.Fn.Fn))
	}
	if v.Ptr != nil && v.Ptr.Kind == PObj {
		return v.Ptr.Ref
	}
	if v.Ptr != nil {
		return "1" // address of a local or of an interior location: non-nil
	}
	return x.term(v)
}

func foldBinop(op token.Token, a, b constant.Value, t types.Type) constant.Value {
	defer func() { recover() }()
	switch op {
	case token.EQL, token.NEQ, token.LSS, token.LEQ, token.GTR, token.GEQ:
		if a.Kind() == b.Kind() {
			return constant.MakeBool(constant.Compare(a, op, b))
		}
		return nil
	case token.ADD, token.SUB, token.MUL, token.AND, token.OR, token.XOR, token.AND_NOT:
		if a.Kind() == constant.Int && b.Kind() == constant.Int {
			return constant.BinaryOp(a, op, b)
		}
		if a.Kind() == constant.String && op == token.ADD {
			return constant.BinaryOp(a, op, b)
		}
	case token.QUO:
		if a.Kind() == constant.Int && b.Kind() == constant.Int && constant.Sign(b) != 0 {
			return constant.BinaryOp(a, token.QUO_ASSIGN, b)
		}
	case token.REM:
		if a.Kind() == constant.Int && b.Kind() == constant.Int && constant.Sign(b) != 0 {
			return constant.BinaryOp(a, token.REM, b)
		}
	case token.SHL, token.SHR:
		if a.Kind() == constant.Int && b.Kind() == constant.Int {
			if s, ok := constant.Uint64Val(b); ok && s < 128 {
				return constant.Shift(a, op, uint(s))
			}
		}
	case token.LAND:
		return constant.MakeBool(constant.BoolVal(a) && constant.BoolVal(b))
	case token.LOR:
		return constant.MakeBool(constant.BoolVal(a) || constant.BoolVal(b))
	}
	return nil
}

func (x *Exec) intBinop(st *State, op token.Token, a, b *Value, rt types.Type, ins ssa.Instruction) *Value {
	t := a.Typ
	if bt, ok := t.Underlying().(*types.Basic); ok && bt.Info()&types.IsUntyped != 0 {
		t = b.Typ
	}
	if isBVType(t, x.Mode) {
		return x.bvBinop(st, op, a, b, t, rt, ins)
	}
	// make constants take the operand type
	ta, tb := x.termAs(a, t), x.termAs(b, t)
	w, signed, _ := intInfo(t)
	cmp := map[token.Token]string{token.EQL: "=", token.LSS: "<", token.LEQ: "<=", token.GTR: ">", token.GEQ: ">="}
	if c, ok := cmp[op]; ok {
		if c == "=" {
			return &Value{T: eq(ta, tb), Typ: rt}
		}
		return &Value{T: app(c, ta, tb), Typ: rt}
	}
	switch op {
	case token.NEQ:
		return &Value{T: not(eq(ta, tb)), Typ: rt}
	case token.ADD:
		return x.wrapRes(app("+", ta, tb), rt)
	case token.SUB:
		return x.wrapRes(app("-", ta, tb), rt)
	case token.MUL:
		return x.wrapRes(app("*", ta, tb), rt)
	case token.QUO:
		if ins != nil {
			x.safety(st, "divzero", not(eq(tb, "0")), ins)
		}
		if !signed {
			return &Value{T: app("div", ta, tb), Typ: rt}
		}
		// Go truncates toward zero
		return &Value{T: goDiv(ta, tb), Typ: rt}
	case token.REM:
		if ins != nil {
			x.safety(st, "divzero", not(eq(tb, "0")), ins)
		}
		if !signed {
			return &Value{T: app("mod", ta, tb), Typ: rt}
		}
		return &Value{T: app("-", ta, app("*", tb, goDiv(ta, tb))), Typ: rt}
	case token.SHL:
		if k, ok := b.constInt(); ok && k >= 0 && k < 64 {
			return x.wrapResAlways(app("*", ta, pow2(int(k))), rt)
		}
	case token.SHR:
		if k, ok := b.constInt(); ok && k >= 0 && k < 64 {
			return &Value{T: app("div", ta, pow2(int(k))), Typ: rt}
		}
	case token.AND:
		if k, ok := b.constInt(); ok && k >= 0 {
			return &Value{T: maskTerm(ta, uint64(k), w), Typ: rt}
		}
		if k, ok := a.constInt(); ok && k >= 0 {
			return &Value{T: maskTerm(tb, uint64(k), w), Typ: rt}
		}
	case token.OR, token.XOR, token.AND_NOT:
		// uninterpreted in math mode
		f := map[token.Token]string{token.OR: "bitor", token.XOR: "bitxor", token.AND_NOT: "bitandnot"}[op]
		x.Reg.Add(f, fmt.Sprintf("(declare-fun %s (Int Int) Int)", f))
		x.abstraction("bit operation %s treated as uninterpreted in math mode (%s)", op, x.P.Pos(instrPos(ins)))
		return &Value{T: app(f, ta, tb), Typ: rt}
	}
	x.limit("unsupported int op %s at %s", op, x.P.Pos(instrPos(ins)))
	return nil
}

func goDiv(a, b string) string {
	// truncated division from Euclidean div
	return app("ite", app(">=", a, "0"), app("div", a, b), app("-", app("div", app("-", a), b)))
}

// maskTerm: x & mask for a constant mask consisting of one contiguous run of ones.
func maskTerm(t string, m uint64, w int) string {
	if m == 0 {
		return "0"
	}
	lo := 0
	for m&1 == 0 {
		m >>= 1
		lo++
	}
	n := 0
	for m&1 == 1 {
		m >>= 1
		n++
	}
	if m != 0 {
		return app("bitand_nc", t) // non-contiguous: unsupported
	}
	inner := t
	if lo > 0 {
		inner = app("div", t, pow2(lo))
	}
	r := app("mod", inner, pow2(n))
	if lo > 0 {
		r = app("*", r, pow2(lo))
	}
	return r
}

// wrapRes: in math mode plain int/int64 arithmetic is treated as exact (assumption);
// narrower and unsigned types wrap explicitly.
func (x *Exec) wrapRes(t string, rt types.Type) *Value {
	w, signed, ok := intInfo(rt)
	if !ok {
		return &Value{T: t, Typ: rt}
	}
	if w == 64 && signed {
		return &Value{T: t, Typ: rt}
	}
	return x.wrapResAlways(t, rt)
}

func (x *Exec) wrapResAlways(t string, rt types.Type) *Value {
	w, signed, ok := intInfo(rt)
	if !ok {
		return &Value{T: t, Typ: rt}
	}
	if signed {
		if w == 64 {
			return &Value{T: t, Typ: rt}
		}
		h := pow2(w - 1)
		return &Value{T: app("-", app("mod", app("+", t, h), pow2(w)), h), Typ: rt}
	}
	return &Value{T: app("mod", t, pow2(w)), Typ: rt}
}

func (x *Exec) termAs(v *Value, t types.Type) string {
	if v.T == "" && v.K != nil {
		return x.constTerm(v.K, t)
	}
	return x.term(v)
}

func (x *Exec) bvBinop(st *State, op token.Token, a, b *Value, t, rt types.Type, ins ssa.Instruction) *Value {
	w, signed, _ := intInfo(t)
	ta := x.termAs(a, t)
	var tb string
	if op == token.SHL || op == token.SHR {
		// shift count: any integer type; bring to width w
		if k, ok := b.constInt(); ok {
			if k >= int64(w) {
				if op == token.SHR && signed {
					k = int64(w - 1)
				} else {
					return &Value{T: bvLit(0, w), Typ: rt}
				}
			}
			tb = bvLit(uint64(k), w)
		} else if isBVType(b.Typ, x.Mode) {
			bw, _, _ := intInfo(b.Typ)
			tb = x.term(b)
			if bw < w {
				tb = fmt.Sprintf("((_ zero_extend %d) %s)", w-bw, tb)
			} else if bw > w {
				x.limit("bv shift count wider than operand")
			}
		} else {
			x.limit("bv shift by non-constant int")
		}
	} else {
		tb = x.termAs(b, t)
	}
	cmpU := map[token.Token]string{token.LSS: "bvult", token.LEQ: "bvule", token.GTR: "bvugt", token.GEQ: "bvuge"}
	cmpS := map[token.Token]string{token.LSS: "bvslt", token.LEQ: "bvsle", token.GTR: "bvsgt", token.GEQ: "bvsge"}
	if op == token.EQL {
		return &Value{T: eq(ta, tb), Typ: rt}
	}
	if op == token.NEQ {
		return &Value{T: not(eq(ta, tb)), Typ: rt}
	}
	if c, ok := cmpU[op]; ok {
		if signed {
			c = cmpS[op]
		}
		return &Value{T: app(c, ta, tb), Typ: rt}
	}
	var f string
	switch op {
	case token.ADD:
		f = "bvadd"
	case token.SUB:
		f = "bvsub"
	case token.MUL:
		f = "bvmul"
	case token.QUO:
		if ins != nil {
			x.safety(st, "divzero", not(eq(tb, bvLit(0, w))), ins)
		}
		f = "bvudiv"
		if signed {
			f = "bvsdiv"
		}
	case token.REM:
		if ins != nil {
			x.safety(st, "divzero", not(eq(tb, bvLit(0, w))), ins)
		}
		f = "bvurem"
		if signed {
			f = "bvsrem"
		}
	case token.AND:
		f = "bvand"
	case token.OR:
		f = "bvor"
	case token.XOR:
		f = "bvxor"
	case token.AND_NOT:
		return &Value{T: app("bvand", ta, app("bvnot", tb)), Typ: rt}
	case token.SHL:
		f = "bvshl"
	case token.SHR:
		f = "bvlshr"
		if signed {
			f = "bvashr"
		}
	default:
		x.limit("unsupported bv op %s", op)
	}
	return &Value{T: app(f, ta, tb), Typ: rt}
}

// ---------------------------------------------------------------------------
// conversions

func (x *Exec) convert(st *State, v *Value, to types.Type, ins ssa.Instruction) *Value {
	from := v.Typ
	switch {
	case isIntType(from) && isIntType(to):
		return x.convInt(v, to)
	case isIntType(from) && isFloatType(to):
		if v.K != nil {
			f, _ := constant.Float64Val(v.K)
			return &Value{T: x.floatLit(f), Typ: to}
		}
		return &Value{T: app("i2f", x.term(v)), Typ: to}
	case isFloatType(from) && isIntType(to):
		r := &Value{T: app("f2i", x.term(v)), Typ: to}
		return r
	case isFloatType(from) && isFloatType(to):
		r := *v
		r.Typ = to
		return &r
	case isStringType(from) && isStringType(to):
		r := *v
		r.Typ = to
		return &r
	case isStringType(to):
		// []byte -> string, rune -> string
		if sl, ok := from.Underlying().(*types.Slice); ok {
			s := x.term(v)
			hn, hs := x.elemHeapName(sl.Elem())
			arr := app("select", x.heap(st, hn, hs), app("s_arr", s))
			return &Value{T: app("str_of_bytes", arr, app("s_off", s), app("s_len", s)), Typ: to}
		}
		if isIntType(from) {
			return &Value{T: app("str_of_rune", x.term(v)), Typ: to}
		}
	case isStringType(from):
		if sl, ok := to.Underlying().(*types.Slice); ok {
			ref := x.newRef(st, "bytes")
			hn, hs := x.elemHeapName(sl.Elem())
			s := x.term(v)
			x.setHeap(st, hn, hs, app("store", x.heap(st, hn, hs), ref, app("bytes_of_str", s)))
			n := app("slen", s)
			return &Value{T: app("mk_slice", ref, "0", n, n), Typ: to}
		}
	}
	if types.Identical(from.Underlying(), to.Underlying()) {
		r := *v
		r.Typ = to
		return &r
	}
	x.limit("unsupported conversion %s -> %s at %s", from, to, x.P.Pos(instrPos(ins)))
	return nil
}

func (x *Exec) convInt(v *Value, to types.Type) *Value {
	from := v.Typ
	fw, fs, _ := intInfo(from)
	tw, ts, _ := intInfo(to)
	if v.K != nil && v.K.Kind() == constant.Int {
		return x.wrapConst(v.K, to)
	}
	fbv, tbv := isBVType(from, x.Mode), isBVType(to, x.Mode)
	t := x.term(v)
	switch {
	case fbv && tbv:
		switch {
		case tw == fw:
			return &Value{T: t, Typ: to}
		case tw < fw:
			return &Value{T: fmt.Sprintf("((_ extract %d 0) %s)", tw-1, t), Typ: to}
		default:
			if fs {
				return &Value{T: fmt.Sprintf("((_ sign_extend %d) %s)", tw-fw, t), Typ: to}
			}
			return &Value{T: fmt.Sprintf("((_ zero_extend %d) %s)", tw-fw, t), Typ: to}
		}
	case fbv != tbv:
		x.limit("bv/int bridging conversion %s -> %s (non-constant)", from, to)
	}
	// math mode: value-preserving when the source range fits, else wrap
	fits := false
	if fs == ts && tw >= fw {
		fits = true
	}
	if !fs && ts && tw > fw {
		fits = true
	}
	if fits {
		return &Value{T: t, Typ: to}
	}
	if !ts {
		// to unsigned: mod 2^tw (of a possibly negative / wider value)
		if fs && fw == 64 && tw == 64 {
			return &Value{T: app("ite", app(">=", t, "0"), t, app("+", t, pow2(64))), Typ: to}
		}
		return &Value{T: app("mod", t, pow2(tw)), Typ: to}
	}
	// to signed
	if !fs && fw == 64 && tw == 64 {
		return &Value{T: app("ite", app("<", t, pow2(63)), t, app("-", t, pow2(64))), Typ: to}
	}
	if tw == 64 {
		return &Value{T: t, Typ: to}
	}
	h := pow2(tw - 1)
	return &Value{T: app("-", app("mod", app("+", t, h), pow2(tw)), h), Typ: to}
}

// ---------------------------------------------------------------------------
// slices, arrays, strings

func (x *Exec) sliceParts(t string) (arr, off, ln, cp string) {
	if strings.HasPrefix(t, "(mk_slice ") {
		fs := splitSexp(t[len("(mk_slice ") : len(t)-1])
		if len(fs) == 4 {
			return fs[0], fs[1], fs[2], fs[3]
		}
	}
	return app("s_arr", t), app("s_off", t), app("s_len", t), app("s_cap", t)
}

func splitSexp(s string) []string {
	var out []string
	depth := 0
	start := -1
	for i := 0; i < len(s); i++ {
		c := s[i]
		switch {
		case c == '(':
			if depth == 0 && start < 0 {
				start = i
			}
			depth++
		case c == ')':
			depth--
			if depth == 0 {
				out = append(out, s[start:i+1])
				start = -1
			}
		case c == ' ':
			if depth == 0 && start >= 0 {
				out = append(out, s[start:i])
				start = -1
			}
		default:
			if start < 0 {
				start = i
			}
		}
	}
	if start >= 0 {
		out = append(out, s[start:])
	}
	return out
}

func addT(a, b string) string {
	if a == "0" {
		return b
	}
	if b == "0" {
		return a
	}
	if x, ok := termIsIntLit(a); ok {
		if y, ok := termIsIntLit(b); ok {
			return intLit(x + y)
		}
	}
	return app("+", a, b)
}

func subT(a, b string) string {
	if b == "0" {
		return a
	}
	if x, ok := termIsIntLit(a); ok {
		if y, ok := termIsIntLit(b); ok {
			return intLit(x - y)
		}
	}
	return app("-", a, b)
}

func leT(a, b string) string {
	if x, ok := termIsIntLit(a); ok {
		if y, ok := termIsIntLit(b); ok {
			if x <= y {
				return "true"
			}
			return "false"
		}
	}
	if a == b {
		return "true"
	}
	return app("<=", a, b)
}

func ltT(a, b string) string {
	if x, ok := termIsIntLit(a); ok {
		if y, ok := termIsIntLit(b); ok {
			if x < y {
				return "true"
			}
			return "false"
		}
	}
	return app("<", a, b)
}

func (x *Exec) indexAddr(st *State, ins *ssa.IndexAddr) *Value {
	base := x.get(st, ins.X)
	idx := x.get(st, ins.Index)
	it := x.termAs(idx, types.Typ[types.Int])
	switch bt := ins.X.Type().Underlying().(type) {
	case *types.Slice:
		s := x.term(base)
		arr, off, ln, _ := x.sliceParts(s)
		x.safety(st, "index", and(leT("0", it), ltT(it, ln)), ins)
		return &Value{Typ: ins.Type(), Ptr: &Pointer{Kind: PElem, Ref: arr, Idx: addT(off, it), Typ: bt.Elem()}}
	case *types.Pointer:
		at := bt.Elem().Underlying().(*types.Array)
		p := x.ptrOfChecked(st, base, ins)
		x.safety(st, "index", and(leT("0", it), ltT(it, fmt.Sprint(at.Len()))), ins)
		if p.Kind == PObj && len(p.Path) == 0 {
			return &Value{Typ: ins.Type(), Ptr: &Pointer{Kind: PElem, Ref: p.Ref, Idx: it, Typ: at.Elem()}}
		}
		return &Value{Typ: ins.Type(), Ptr: p.withStep(Step{IsIdx: true, Idx: it, Parent: p.Typ, Typ: at.Elem()})}
	}
	x.limit("IndexAddr on %s", ins.X.Type())
	return nil
}

func (x *Exec) index(st *State, ins *ssa.Index) *Value {
	base := x.get(st, ins.X)
	idx := x.get(st, ins.Index)
	it := x.termAs(idx, types.Typ[types.Int])
	switch bt := ins.X.Type().Underlying().(type) {
	case *types.Array:
		x.safety(st, "index", and(leT("0", it), ltT(it, fmt.Sprint(bt.Len()))), ins)
		r := &Value{T: app("select", x.term(base), it), Typ: bt.Elem()}
		x.assumeTypeInv(st, r)
		return r
	case *types.Basic: // string
		s := x.term(base)
		x.safety(st, "index", and(leT("0", it), ltT(it, app("slen", s))), ins)
		return &Value{T: app("sat", s, it), Typ: ins.Type()}
	}
	x.limit("Index on %s", ins.X.Type())
	return nil
}

func (x *Exec) slice(st *State, ins *ssa.Slice) *Value {
	base := x.get(st, ins.X)
	var lo, hi, mx string
	if ins.Low != nil {
		lo = x.termAs(x.get(st, ins.Low), types.Typ[types.Int])
	} else {
		lo = "0"
	}
	if ins.High != nil {
		hi = x.termAs(x.get(st, ins.High), types.Typ[types.Int])
	}
	if ins.Max != nil {
		mx = x.termAs(x.get(st, ins.Max), types.Typ[types.Int])
	}
	switch bt := ins.X.Type().Underlying().(type) {
	case *types.Slice:
		s := x.term(base)
		arr, off, ln, cp := x.sliceParts(s)
		if hi == "" {
			hi = ln
		}
		upper := cp
		if mx != "" {
			upper = mx
			x.safety(st, "slice", and(leT(mx, cp)), ins)
		}
		x.safety(st, "slice", and(leT("0", lo), leT(lo, hi), leT(hi, upper)), ins)
		return &Value{T: app("mk_slice", arr, addT(off, lo), subT(hi, lo), subT(upper, lo)), Typ: ins.Type()}
	case *types.Basic: // string
		s := x.term(base)
		if hi == "" {
			hi = app("slen", s)
		}
		x.safety(st, "slice", and(leT("0", lo), leT(lo, hi), leT(hi, app("slen", s))), ins)
		if lo == "0" && hi == app("slen", s) {
			return &Value{T: s, Typ: ins.Type()}
		}
		return &Value{T: app("ssub", s, lo, hi), Typ: ins.Type()}
	case *types.Pointer:
		at := bt.Elem().Underlying().(*types.Array)
		n := fmt.Sprint(at.Len())
		if hi == "" {
			hi = n
		}
		upper := n
		if mx != "" {
			upper = mx
		}
		x.safety(st, "slice", and(leT("0", lo), leT(lo, hi), leT(hi, upper), leT(upper, n)), ins)
		p := x.ptrOfChecked(st, base, ins)
		if p.Kind == PObj && len(p.Path) == 0 {
			return &Value{T: app("mk_slice", p.Ref, lo, subT(hi, lo), subT(upper, lo)), Typ: ins.Type()}
		}
		// slice of an array embedded in a struct: snapshot copy (reads only)
		cur := x.load(st, p)
		ref := x.newRef(st, "embedded_array_view")
		hn, hs := x.elemHeapName(at.Elem())
		x.setHeap(st, hn, hs, app("store", x.heap(st, hn, hs), ref, x.term(cur)))
		x.abstraction("slice of an array embedded in a struct modelled as a read-only snapshot (%s)", x.P.Pos(instrPos(ins)))
		return &Value{T: app("mk_slice", ref, lo, subT(hi, lo), subT(upper, lo)), Typ: ins.Type()}
	}
	x.limit("Slice on %s", ins.X.Type())
	return nil
}

func (x *Exec) makeSlice(st *State, ins *ssa.MakeSlice) *Value {
	ln := x.termAs(x.get(st, ins.Len), types.Typ[types.Int])
	cp := x.termAs(x.get(st, ins.Cap), types.Typ[types.Int])
	x.safety(st, "makeslice", and(leT("0", ln), leT(ln, cp)), ins)
	el := ins.Type().Underlying().(*types.Slice).Elem()
	ref := x.newRef(st, "slice")
	hn, hs := x.elemHeapName(el)
	zero := fmt.Sprintf("((as const (Array Int %s)) %s)", x.Sorts.SortOf(el), x.Sorts.Zero(el))
	x.setHeap(st, hn, hs, app("store", x.heap(st, hn, hs), ref, zero))
	return &Value{T: app("mk_slice", ref, "0", ln, cp), Typ: ins.Type()}
}

// ---------------------------------------------------------------------------
// interfaces

func (x *Exec) makeInterface(st *State, v *Value, from, to types.Type) *Value {
	if isValIface(to) {
		switch {
		case isIntType(from) && elemKey(from) == "int":
			return &Value{T: app("VInt", x.termAs(v, from)), Typ: to}
		case isFloatType(from):
			return &Value{T: app("VFloat", x.termAs(v, from)), Typ: to}
		case isStringType(from) && elemKey(from) == "string":
			return &Value{T: app("VStr", x.termAs(v, from)), Typ: to}
		case isBoolType(from) && elemKey(from) == "bool":
			return &Value{T: app("VBool", x.termAs(v, from)), Typ: to}
		}
		if nt, ok := from.(*types.Named); ok && nt.Obj().Name() == "Block" && nt.Obj().Pkg() != nil && nt.Obj().Pkg().Path() == bclPath {
			t := x.term(v)
			return &Value{T: app("VBlock", app("S_Block_Type", t), app("S_Block_Name", t), app("S_Block_Fields", t)), Typ: to}
		}
		// other dynamic types
		id := x.typeID(from)
		var payload string
		if v.T != "" && x.Sorts.SortOf(from) == "Int" {
			payload = v.T
		} else if v.K != nil && v.K.Kind() == constant.Int {
			payload = x.termAs(v, from)
		} else {
			payload = x.freshSort("payload", "Int")
		}
		return &Value{T: app("VOther", fmt.Sprint(id), payload), Typ: to}
	}
	// non-empty interface: opaque non-nil handle with a dynamic type
	h := x.freshSort("iface", "Int")
	st.assume(app(">", h, "100"))
	st.assume(eq(app("dyntype", h), fmt.Sprint(x.typeID(from))))
	if v.T != "" || v.K != nil {
		fs := x.Sorts.SortOf(from)
		pf := "ipayload_" + sanitize(elemKey(from))
		x.Reg.Add(pf, fmt.Sprintf("(declare-fun %s (Int) %s)", pf, fs))
		st.assume(eq(app(pf, h), x.termAs(v, from)))
	}
	return &Value{T: h, Typ: to}
}

func (x *Exec) changeInterface(st *State, v *Value, to types.Type) *Value {
	if isValIface(v.Typ) == isValIface(to) {
		r := *v
		r.Typ = to
		return &r
	}
	if isValIface(to) {
		// non-empty iface -> any
		t := x.term(v)
		return &Value{T: app("ite", eq(t, "0"), "VNil", app("VOther", app("dyntype", t), t)), Typ: to}
	}
	x.limit("ChangeInterface any -> %s", to)
	return nil
}

func (x *Exec) typeAssert(st *State, ins *ssa.TypeAssert) *Value {
	v := x.get(st, ins.X)
	to := ins.AssertedType
	var ok, payload string
	if isValIface(ins.X.Type()) {
		t := x.term(v)
		switch {
		case isIntType(to) && elemKey(to) == "int":
			ok, payload = app("(_ is VInt)", t), app("v_int", t)
		case isFloatType(to):
			ok, payload = app("(_ is VFloat)", t), app("v_flt", t)
		case isStringType(to) && elemKey(to) == "string":
			ok, payload = app("(_ is VStr)", t), app("v_str", t)
		case isBoolType(to) && elemKey(to) == "bool":
			ok, payload = app("(_ is VBool)", t), app("v_bool", t)
		default:
			if nt, isN := to.(*types.Named); isN && nt.Obj().Name() == "Block" {
				x.Sorts.SortOf(to)
				ok = app("(_ is VBlock)", t)
				payload = app("mk_S_Block", app("vb_type", t), app("vb_name", t), app("vb_fields", t))
			} else if isIface(to) {
				x.limit("type assertion to interface %s", to)
			} else {
				ok = and(app("(_ is VOther)", t), eq(app("vo_type", t), fmt.Sprint(x.typeID(to))))
				if x.Sorts.SortOf(to) == "Int" {
					payload = app("vo_ref", t)
				} else {
					payload = x.freshSort("assertval", x.Sorts.SortOf(to))
				}
			}
		}
	} else {
		t := x.term(v)
		if isIface(to) {
			x.limit("type assertion iface -> iface %s", to)
		}
		ok = and(not(eq(t, "0")), eq(app("dyntype", t), fmt.Sprint(x.typeID(to))))
		pf := "ipayload_" + sanitize(elemKey(to))
		x.Reg.Add(pf, fmt.Sprintf("(declare-fun %s (Int) %s)", pf, x.Sorts.SortOf(to)))
		payload = app(pf, t)
	}
	if ins.CommaOk {
		pv := &Value{T: app("ite", ok, payload, x.Sorts.Zero(to)), Typ: to}
		return &Value{Typ: ins.Type(), Tup: []*Value{pv, {T: ok, Typ: types.Typ[types.Bool]}}}
	}
	x.safety(st, "typeassert", ok, ins)
	return &Value{T: payload, Typ: to}
}

// ---------------------------------------------------------------------------
// maps

func (x *Exec) makeMap(st *State, ins *ssa.MakeMap) *Value {
	mt := ins.Type().Underlying().(*types.Map)
	ref := x.newRef(st, "map")
	dn, vn, ds, vs := x.mapHeapNames(mt)
	ks := x.Sorts.SortOf(mt.Key())
	x.setHeap(st, dn, ds, app("store", x.heap(st, dn, ds), ref, fmt.Sprintf("((as const (Array %s Bool)) false)", ks)))
	x.heap(st, vn, vs)
	return &Value{T: ref, Typ: ins.Type()}
}

func (x *Exec) mapUpdate(st *State, ins *ssa.MapUpdate) {
	m := x.get(st, ins.Map)
	mt := ins.Map.Type().Underlying().(*types.Map)
	k := x.termAs(x.get(st, ins.Key), mt.Key())
	vv := x.get(st, ins.Value)
	if isValIface(mt.Elem()) && !isValIface(vv.Typ) {
		vv = x.makeInterface(st, vv, vv.Typ, mt.Elem())
	}
	v := x.termAs(vv, mt.Elem())
	mr := x.term(m)
	x.safety(st, "nilmap", not(eq(mr, "0")), ins)
	dn, vn, ds, vs := x.mapHeapNames(mt)
	d, vh := x.heap(st, dn, ds), x.heap(st, vn, vs)
	x.setHeap(st, dn, ds, app("store", d, mr, app("store", app("select", d, mr), k, "true")))
	x.setHeap(st, vn, vs, app("store", vh, mr, app("store", app("select", vh, mr), k, v)))
}

func (x *Exec) lookup(st *State, ins *ssa.Lookup) *Value {
	m := x.get(st, ins.X)
	if mt, ok := ins.X.Type().Underlying().(*types.Map); ok {
		k := x.termAs(x.get(st, ins.Index), mt.Key())
		mr := x.term(m)
		dn, vn, ds, vs := x.mapHeapNames(mt)
		d, vh := x.heap(st, dn, ds), x.heap(st, vn, vs)
		present := and(not(eq(mr, "0")), app("select", app("select", d, mr), k))
		val := app("ite", present, app("select", app("select", vh, mr), k), x.Sorts.Zero(mt.Elem()))
		pv := &Value{T: val, Typ: mt.Elem()}
		if _, isSig := mt.Elem().Underlying().(*types.Signature); isSig {
			_ = isSig
		}
		if ins.CommaOk {
			return &Value{Typ: ins.Type(), Tup: []*Value{pv, {T: present, Typ: types.Typ[types.Bool]}}}
		}
		return pv
	}
	// string index
	s := x.term(m)
	it := x.termAs(x.get(st, ins.Index), types.Typ[types.Int])
	x.safety(st, "index", and(leT("0", it), ltT(it, app("slen", s))), ins)
	return &Value{T: app("sat", s, it), Typ: ins.Type()}
}

// ---------------------------------------------------------------------------
// range iteration

func (x *Exec) rangeIter(st *State, ins *ssa.Range) *Value {
	v := x.get(st, ins.X)
	if isStringType(ins.X.Type()) {
		c := x.newCell("iterpos", types.Typ[types.Int])
		st.cells[c] = &Value{Typ: types.Typ[types.Int], K: constant.MakeInt64(0)}
		return &Value{Typ: ins.Type(), It: &Iter{Kind: "string", X: v, Pos: c}}
	}
	c := x.newCell("itermap", types.Typ[types.Int])
	st.cells[c] = &Value{Typ: types.Typ[types.Int], K: constant.MakeInt64(0)}
	return &Value{Typ: ins.Type(), It: &Iter{Kind: "map", X: v, Pos: c}}
}

func (x *Exec) next(st *State, ins *ssa.Next) *Value {
	itv := x.get(st, ins.Iter)
	it := itv.It
	if it == nil {
		x.limit("Next on unknown iterator")
	}
	tt := ins.Type().(*types.Tuple)
	if it.Kind == "string" {
		s := x.term(it.X)
		pos := x.term(st.cells[it.Pos])
		ok := app("<", pos, app("slen", s))
		// rune and width are functions of (s, pos)
		x.Reg.Add("rune_at", "(declare-fun rune_at (Str Int) Int)", "Str")
		x.Reg.Add("rune_w", "(declare-fun rune_w (Str Int) Int)", "Str")
		x.Reg.AddAxiom("rune_w", "rune_w_range", "(assert (forall ((s Str) (i Int)) (! (and (<= 1 (rune_w s i)) (<= (rune_w s i) 4) (=> (< (sat s i) 128) (and (= (rune_w s i) 1) (= (rune_at s i) (sat s i)))) (=> (>= (sat s i) 128) (>= (rune_at s i) 128)) (=> (< i (slen s)) (<= (+ i (rune_w s i)) (slen s)))) :pattern ((rune_w s i)))))")
		// bytes skipped inside a multi-byte rune are continuation bytes (>= 0x80): never ASCII
		x.Reg.AddAxiom("rune_w", "rune_w_cont", "(assert (forall ((s Str) (i Int) (j Int)) (! (=> (and (< i j) (< j (+ i (rune_w s i)))) (>= (sat s j) 128)) :pattern ((rune_w s i) (sat s j)))))")
		w := app("rune_w", s, pos)
		r := app("rune_at", s, pos)
		st.assume(app("<=", "0", pos))
		newPos := x.def(st, "iterpos", "Int", app("ite", ok, app("+", pos, w), pos))
		st.cells[it.Pos] = &Value{T: newPos, Typ: types.Typ[types.Int]}
		return &Value{Typ: ins.Type(), Tup: []*Value{
			{T: ok, Typ: types.Typ[types.Bool]},
			{T: pos, Typ: tt.At(1).Type()},
			{T: r, Typ: tt.At(2).Type()},
		}}
	}
	// map: nondeterministic next entry
	mt := it.X.Typ.Underlying().(*types.Map)
	ok := x.freshSort("more", "Bool")
	k := x.fresh("key", mt.Key())
	mr := x.term(it.X)
	dn, vn, ds, vs := x.mapHeapNames(mt)
	d, vh := x.heap(st, dn, ds), x.heap(st, vn, vs)
	st.assume(implies(ok, and(not(eq(mr, "0")), app("select", app("select", d, mr), k.T))))
	val := &Value{T: app("select", app("select", vh, mr), k.T), Typ: mt.Elem()}
	return &Value{Typ: ins.Type(), Tup: []*Value{{T: ok, Typ: types.Typ[types.Bool]}, k, val}}
}

// ---------------------------------------------------------------------------
// channels (sequential view)

func (x *Exec) recv(st *State, ins *ssa.UnOp, ch *Value) *Value {
	el := ch.Typ.Underlying().(*types.Chan).Elem()
	v := x.fresh("recv", el)
	x.assumeTypeInv(st, v)
	x.chanEvent(st, "recv", ch, v, ins)
	if ins.CommaOk {
		ok := x.freshSort("recvok", "Bool")
		okv := &Value{T: ok, Typ: types.Typ[types.Bool]}
		x.chanRecvOk(st, ch, v, okv, ins)
		return &Value{Typ: ins.Type(), Tup: []*Value{v, okv}}
	}
	return v
}

func (x *Exec) send(st *State, ins *ssa.Send) {
	ch := x.get(st, ins.Chan)
	v := x.get(st, ins.X)
	x.chanEvent(st, "send", ch, v, ins)
}

func (x *Exec) selectStmt(st *State, ins *ssa.Select) *Value {
	// nondeterministic choice among the states
	idx := x.fresh("selidx", types.Typ[types.Int])
	n := len(ins.States)
	lo := "0"
	if !ins.Blocking {
		lo = "(- 1)"
	}
	st.assume(and(app("<=", lo, idx.T), app("<", idx.T, fmt.Sprint(n))))
	tup := []*Value{idx, {T: x.freshSort("selok", "Bool"), Typ: types.Typ[types.Bool]}}
	for i, s := range ins.States {
		ch := x.get(st, s.Chan)
		if s.Dir == types.RecvOnly {
			el := ch.Typ.Underlying().(*types.Chan).Elem()
			v := x.fresh("selrecv", el)
			tup = append(tup, v)
			x.chanSelectEvent(st, i, idx, "recv", ch, v, ins)
		} else {
			v := x.get(st, s.Send)
			x.chanSelectEvent(st, i, idx, "send", ch, v, ins)
		}
	}
	return &Value{Typ: ins.Type(), Tup: tup}
}

// goStmt: the started goroutine is verified separately (as sequential code
// against its own contract). Here: the event is counted (ghost ev_go), the
// goroutine's preconditions must hold when it is started, and every captured
// variable the goroutine writes becomes arbitrary for the rest of this function.
func (x *Exec) goStmt(st *State, fr *Frame, ins *ssa.Go, args []*Value, fnv *Value) {
	x.bumpGhost(st, "ev_go", "")
	if fnv == nil || fnv.Fn == nil {
		return
	}
	callee := fnv.Fn.Fn
	name := x.P.FuncName(callee)
	where := x.P.Pos(instrPos(ins))
	if fc, ok := x.C.Funcs[name]; ok && fr.Fn == x.fn {
		env := &Env{x: x, st: st, old: st, vars: map[string]*Value{}, pkg: x.pkgOfContract(fc, callee)}
		for i, p := range callee.Params {
			if i < len(args) {
				env.vars[p.Name()] = args[i]
			}
		}
		for i, fv := range callee.FreeVars {
			if i < len(fnv.Fn.Bindings) && fnv.Fn.Bindings[i].Ptr != nil && fnv.Fn.Bindings[i].Ptr.Kind == PCell {
				if cv, ok := st.cells[fnv.Fn.Bindings[i].Ptr.Cell]; ok {
					env.vars[fv.Name()] = cv
				}
			} else if i < len(fnv.Fn.Bindings) && fnv.Fn.Bindings[i].Ptr != nil {
				env.vars[fv.Name()] = x.load(st, fnv.Fn.Bindings[i].Ptr)
			}
		}
		short := shortCallee(name)
		for _, inv := range x.C.Invs {
			if fc.NoInv[inv.Name] || fc.NoInv["*"] || inv.History || inv.Owned {
				continue
			}
			for i, p := range callee.Params {
				if x.typeMatches(p.Type(), inv.Type) && i < len(args) {
					x.oblige(st, "go@"+short, "inv_"+inv.Name, inv.Props, x.evalBool(env.with(inv.Binder, args[i]), inv.Expr), where, inv.Src)
					break
				}
			}
		}
		for i, r := range fc.Requires {
			label := r.Label
			if label == "" {
				label = fmt.Sprint(i + 1)
			}
			props := r.Props
			if len(props) == 0 {
				props = fc.Props
			}
			x.oblige(st, "go@"+short, label, props, x.evalBool(env, r.Expr), where, r.Src)
		}
	}
	for i, fv := range callee.FreeVars {
		if i >= len(fnv.Fn.Bindings) {
			break
		}
		written := false
		if refs := fv.Referrers(); refs != nil {
			for _, r := range *refs {
				if sto, ok := r.(*ssa.Store); ok && sto.Addr == fv {
					written = true
				}
			}
		}
		b := fnv.Fn.Bindings[i]
		if written && b.Ptr != nil && b.Ptr.Kind == PCell {
			st.cells[b.Ptr.Cell] = x.fresh("shared_"+fv.Name(), b.Ptr.Cell.Typ)
			x.assumeTypeInv(st, st.cells[b.Ptr.Cell])
			st.shared = append(st.shared[:len(st.shared):len(st.shared)], b.Ptr.Cell)
		}
	}
}

// afterRecv: a receive may synchronise with a goroutine started by this
// function; the variables it writes are re-havocked.
func (x *Exec) afterRecv(st *State) {
	for _, c := range st.shared {
		st.cells[c] = x.fresh("shared_"+c.Name, c.Typ)
		x.assumeTypeInv(st, st.cells[c])
	}
}
