package main

// SMT layer: a registry of declarations (emitted on demand by symbol use),
// sort mapping from Go types, and script assembly.

import (
	"fmt"
	"go/types"
	"regexp"
	"sort"
	"strings"
)

// Decl is one top-level SMT command that introduces (or constrains) symbols.
type Decl struct {
	Name string   // primary symbol (unique key)
	Text string   // full SMT command(s)
	Deps []string // symbols whose decls must precede (beyond those found by scanning Text)
	Seq  int
	// Axiom decls are attached to a symbol: they are emitted whenever the symbol is used.
	AxiomOf string
}

type Registry struct {
	decls  map[string]*Decl
	axioms map[string][]*Decl // symbol -> axioms to include when symbol is used
	seq    int
	ctr    int
}

func NewRegistry() *Registry {
	return &Registry{decls: map[string]*Decl{}, axioms: map[string][]*Decl{}}
}

func (r *Registry) Has(name string) bool { _, ok := r.decls[name]; return ok }

func (r *Registry) Add(name, text string, deps ...string) {
	if _, ok := r.decls[name]; ok {
		return
	}
	r.seq++
	r.decls[name] = &Decl{Name: name, Text: text, Deps: deps, Seq: r.seq}
}

// AddAxiom attaches an assertion to symbol sym.
func (r *Registry) AddAxiom(sym, name, text string) {
	key := "ax!" + name
	if _, ok := r.decls[key]; ok {
		return
	}
	r.seq++
	d := &Decl{Name: key, Text: text, Seq: r.seq, AxiomOf: sym}
	r.decls[key] = d
	r.axioms[sym] = append(r.axioms[sym], d)
}

func (r *Registry) Fresh(prefix string) string {
	r.ctr++
	return fmt.Sprintf("%s!%d", sanitize(prefix), r.ctr)
}

// FreshConst declares a new constant of the given sort.
func (r *Registry) FreshConst(prefix, sort string) string {
	n := r.Fresh(prefix)
	r.Add(n, fmt.Sprintf("(declare-const %s %s)", n, sort))
	return n
}

var symRe = regexp.MustCompile(`[A-Za-z_!$.@#%&*/<=>?^~+\-][A-Za-z0-9_!$.@#%&*/<=>?^~+\-]*|\|[^|]*\|`)

func symbolsIn(text string) []string {
	return symRe.FindAllString(text, -1)
}

// Closure computes the set of decls needed by the given body texts, in
// registration order.
func (r *Registry) Closure(bodies ...string) []*Decl {
	need := map[string]*Decl{}
	var work []string
	seenSym := map[string]bool{}
	push := func(text string) {
		for _, s := range symbolsIn(text) {
			if !seenSym[s] {
				seenSym[s] = true
				work = append(work, s)
			}
		}
	}
	for _, b := range bodies {
		push(b)
	}
	for len(work) > 0 {
		s := work[len(work)-1]
		work = work[:len(work)-1]
		if d, ok := r.decls[s]; ok {
			if _, have := need[d.Name]; !have {
				need[d.Name] = d
				push(d.Text)
				for _, dep := range d.Deps {
					if !seenSym[dep] {
						seenSym[dep] = true
						work = append(work, dep)
					}
				}
			}
		}
		for _, ax := range r.axioms[s] {
			if _, have := need[ax.Name]; !have {
				need[ax.Name] = ax
				push(ax.Text)
			}
		}
	}
	out := make([]*Decl, 0, len(need))
	for _, d := range need {
		out = append(out, d)
	}
	sort.Slice(out, func(i, j int) bool { return out[i].Seq < out[j].Seq })
	return out
}

func sanitize(s string) string {
	var b strings.Builder
	for _, c := range s {
		switch {
		case c >= 'a' && c <= 'z', c >= 'A' && c <= 'Z', c >= '0' && c <= '9', c == '_':
			b.WriteRune(c)
		default:
			b.WriteByte('_')
		}
	}
	return b.String()
}

// ---------------------------------------------------------------------------
// Sorts

type Mode int

const (
	ModeMath Mode = iota
	ModeBV
)

// intInfo describes a Go integer type.
func intInfo(t types.Type) (width int, signed bool, ok bool) {
	b, isb := t.Underlying().(*types.Basic)
	if !isb {
		return 0, false, false
	}
	switch b.Kind() {
	case types.Int, types.UntypedInt:
		return 64, true, true
	case types.Int8:
		return 8, true, true
	case types.Int16:
		return 16, true, true
	case types.Int32, types.UntypedRune:
		return 32, true, true
	case types.Int64:
		return 64, true, true
	case types.Uint, types.Uintptr:
		return 64, false, true
	case types.Uint8:
		return 8, false, true
	case types.Uint16:
		return 16, false, true
	case types.Uint32:
		return 32, false, true
	case types.Uint64:
		return 64, false, true
	}
	return 0, false, false
}

func isIntType(t types.Type) bool { _, _, ok := intInfo(t); return ok }

// isBVType: in bv mode every sized integer type is a bit-vector; plain int
// (and untyped constants) stay mathematical so that lengths and indices need
// no bridging.
func isBVType(t types.Type, m Mode) bool {
	if m != ModeBV {
		return false
	}
	b, ok := t.Underlying().(*types.Basic)
	if !ok {
		return false
	}
	switch b.Kind() {
	case types.Int8, types.Int16, types.Int32, types.Int64, types.Uint8, types.Uint16, types.Uint32, types.Uint64, types.Uint, types.Uintptr:
		return true
	}
	return false
}

func isFloatType(t types.Type) bool {
	b, ok := t.Underlying().(*types.Basic)
	return ok && (b.Kind() == types.Float64 || b.Kind() == types.Float32 || b.Kind() == types.UntypedFloat)
}
func isStringType(t types.Type) bool {
	b, ok := t.Underlying().(*types.Basic)
	return ok && (b.Kind() == types.String || b.Kind() == types.UntypedString)
}
func isBoolType(t types.Type) bool {
	b, ok := t.Underlying().(*types.Basic)
	return ok && (b.Kind() == types.Bool || b.Kind() == types.UntypedBool)
}

// isValIface: interfaces modelled by the Val datatype (empty interfaces: any, value).
func isValIface(t types.Type) bool {
	it, ok := t.Underlying().(*types.Interface)
	return ok && it.NumMethods() == 0
}
func isIface(t types.Type) bool {
	_, ok := t.Underlying().(*types.Interface)
	return ok
}

type Sorts struct {
	reg    *Registry
	mode   Mode
	names  map[string]string // types.Type string -> sort name for struct datatypes
	anon   int
	struct_ map[string]*types.Struct
}

func NewSorts(reg *Registry, mode Mode) *Sorts {
	s := &Sorts{reg: reg, mode: mode, names: map[string]string{}, struct_: map[string]*types.Struct{}}
	s.prelude()
	return s
}

func (s *Sorts) prelude() {
	r := s.reg
	r.Add("Str", "(declare-sort Str 0)")
	r.Add("Flt", "(declare-sort Flt 0)")
	r.Add("Slice", "(declare-datatypes ((Slice 0)) (((mk_slice (s_arr Int) (s_off Int) (s_len Int) (s_cap Int)))))")
	for _, f := range []string{"mk_slice", "s_arr", "s_off", "s_len", "s_cap"} {
		r.Add(f, "", "Slice")
	}
	r.Add("Val", "(declare-datatypes ((Val 0)) (((VNil) (VInt (v_int Int)) (VFloat (v_flt Flt)) (VStr (v_str Str)) (VBool (v_bool Bool)) (VBlock (vb_type Str) (vb_name Str) (vb_fields Int)) (VOther (vo_type Int) (vo_ref Int)))))", "Str", "Flt")
	for _, f := range []string{"VNil", "VInt", "v_int", "VFloat", "v_flt", "VStr", "v_str", "VBool", "v_bool", "VBlock", "vb_type", "vb_name", "vb_fields", "VOther", "vo_type", "vo_ref"} {
		r.Add(f, "", "Val")
	}
	// strings
	r.Add("slen", "(declare-fun slen (Str) Int)", "Str")
	r.AddAxiom("slen", "slen_nonneg", "(assert (forall ((s Str)) (! (>= (slen s) 0) :pattern ((slen s)))))")
	r.Add("sat", "(declare-fun sat (Str Int) Int)", "Str")
	r.AddAxiom("sat", "sat_range", "(assert (forall ((s Str) (i Int)) (! (and (<= 0 (sat s i)) (<= (sat s i) 255)) :pattern ((sat s i)))))")
	r.Add("sempty", "(declare-const sempty Str)", "Str", "slen")
	r.AddAxiom("sempty", "sempty_len", "(assert (= (slen sempty) 0))")
	r.AddAxiom("sempty", "sempty_uniq", "(assert (forall ((s Str)) (! (=> (= (slen s) 0) (= s sempty)) :pattern ((slen s)))))")
	r.Add("scat", "(declare-fun scat (Str Str) Str)", "Str", "slen", "sat")
	r.AddAxiom("scat", "scat_len", "(assert (forall ((a Str) (b Str)) (! (= (slen (scat a b)) (+ (slen a) (slen b))) :pattern ((scat a b)))))")
	r.AddAxiom("scat", "scat_at", "(assert (forall ((a Str) (b Str) (i Int)) (! (= (sat (scat a b) i) (ite (< i (slen a)) (sat a i) (sat b (- i (slen a))))) :pattern ((sat (scat a b) i)))))")
	r.Add("ssub", "(declare-fun ssub (Str Int Int) Str)", "Str", "slen", "sat")
	r.AddAxiom("ssub", "ssub_len", "(assert (forall ((s Str) (a Int) (b Int)) (! (=> (and (<= 0 a) (<= a b) (<= b (slen s))) (= (slen (ssub s a b)) (- b a))) :pattern ((ssub s a b)))))")
	r.AddAxiom("ssub", "ssub_at", "(assert (forall ((s Str) (a Int) (b Int) (i Int)) (! (=> (and (<= 0 a) (<= a b) (<= b (slen s)) (<= 0 i) (< i (- b a))) (= (sat (ssub s a b) i) (sat s (+ a i)))) :pattern ((sat (ssub s a b) i)))))")
	r.AddAxiom("ssub", "ssub_whole", "(assert (forall ((s Str)) (! (= (ssub s 0 (slen s)) s) :pattern ((ssub s 0 (slen s))))))")
	r.Add("slt", "(declare-fun slt (Str Str) Bool)", "Str")
	// floats: uninterpreted
	for _, f := range []string{"fadd", "fsub", "fmul", "fdiv"} {
		r.Add(f, fmt.Sprintf("(declare-fun %s (Flt Flt) Flt)", f), "Flt")
	}
	r.Add("fneg", "(declare-fun fneg (Flt) Flt)", "Flt")
	for _, f := range []string{"flt", "fgt", "fle", "fge", "feq"} {
		r.Add(f, fmt.Sprintf("(declare-fun %s (Flt Flt) Bool)", f), "Flt")
	}
	r.Add("i2f", "(declare-fun i2f (Int) Flt)", "Flt")
	r.Add("f2i", "(declare-fun f2i (Flt) Int)", "Flt")
	r.Add("fbits", "(declare-fun fbits (Flt) Int)", "Flt")
	r.Add("fconst", "(declare-fun fconst (Int) Flt)", "Flt") // float literal, keyed by bits
	r.AddAxiom("fconst", "fconst_inj", "(assert (forall ((a Int)) (! (= (fbits (fconst a)) a) :pattern ((fconst a)))))")
	// dynamic type of non-Val interface values, type ids
	r.Add("dyntype", "(declare-fun dyntype (Int) Int)")
	// string <-> bytes
	r.Add("str_of_bytes", "(declare-fun str_of_bytes ((Array Int Int) Int Int) Str)", "Str", "slen", "sat")
	r.AddAxiom("str_of_bytes", "sob_len", "(assert (forall ((a (Array Int Int)) (o Int) (n Int)) (! (=> (>= n 0) (= (slen (str_of_bytes a o n)) n)) :pattern ((str_of_bytes a o n)))))")
	r.AddAxiom("str_of_bytes", "sob_at", "(assert (forall ((a (Array Int Int)) (o Int) (n Int) (i Int)) (! (=> (and (<= 0 i) (< i n)) (= (sat (str_of_bytes a o n) i) (select a (+ o i)))) :pattern ((sat (str_of_bytes a o n) i)))))")
	r.Add("bytes_of_str", "(declare-fun bytes_of_str (Str) (Array Int Int))", "Str", "sat")
	r.AddAxiom("bytes_of_str", "bos_at", "(assert (forall ((s Str) (i Int)) (! (= (select (bytes_of_str s) i) (sat s i)) :pattern ((select (bytes_of_str s) i)))))")
	r.Add("str_of_rune", "(declare-fun str_of_rune (Int) Str)", "Str")
	r.Add("itoa", "(declare-fun itoa (Int) Str)", "Str")
	r.Add("ftoa", "(declare-fun ftoa (Flt) Str)", "Str", "Flt")
	r.Add("srepeat", "(declare-fun srepeat (Str Int) Str)", "Str")
}

// SortOf maps a Go type to an SMT sort.
func (s *Sorts) SortOf(t types.Type) string {
	switch u := t.Underlying().(type) {
	case *types.Basic:
		switch {
		case isBoolType(t):
			return "Bool"
		case isIntType(t):
			if isBVType(t, s.mode) {
				w, _, _ := intInfo(t)
				return fmt.Sprintf("(_ BitVec %d)", w)
			}
			return "Int"
		case isFloatType(t):
			return "Flt"
		case isStringType(t):
			return "Str"
		case u.Kind() == types.UnsafePointer:
			return "Int"
		case u.Kind() == types.UntypedNil:
			return "Int"
		}
	case *types.Pointer, *types.Map, *types.Chan, *types.Signature:
		return "Int"
	case *types.Slice:
		return "Slice"
	case *types.Array:
		return fmt.Sprintf("(Array Int %s)", s.SortOf(u.Elem()))
	case *types.Struct:
		return s.structSort(t, u)
	case *types.Interface:
		if u.NumMethods() == 0 {
			return "Val"
		}
		return "Int"
	case *types.Tuple:
		return "TUPLE"
	}
	panic(fmt.Sprintf("SortOf: unsupported type %s", t))
}

func (s *Sorts) structName(t types.Type) string {
	key := t.String()
	if n, ok := s.names[key]; ok {
		return n
	}
	n := structBaseName(t)
	s.names[key] = n
	return n
}

func fnv32(s string) uint32 {
	h := uint32(2166136261)
	for i := 0; i < len(s); i++ {
		h ^= uint32(s[i])
		h *= 16777619
	}
	return h
}

// structBaseName is the sort name of a struct type, computed without a Sorts instance.
func structBaseName(t types.Type) string {
	if nt, ok := t.(*types.Named); ok {
		if nt.Obj().Pkg() != nil && nt.Obj().Pkg().Name() != "bcl" {
			return "S_" + sanitize(nt.Obj().Pkg().Name()+"_"+nt.Obj().Name())
		}
		return "S_" + sanitize(nt.Obj().Name())
	}
	return fmt.Sprintf("S_anon%08x", fnv32(t.String()))
}

func (s *Sorts) structSort(t types.Type, st *types.Struct) string {
	n := s.structName(t)
	if s.reg.Has(n) {
		return n
	}
	s.struct_[n] = st
	var fs []string
	var deps []string
	for i := 0; i < st.NumFields(); i++ {
		fsort := s.SortOf(st.Field(i).Type())
		fs = append(fs, fmt.Sprintf("(%s %s)", s.fieldSel(n, st, i), fsort))
		deps = append(deps, symbolsIn(fsort)...)
	}
	text := fmt.Sprintf("(declare-datatypes ((%s 0)) (((mk_%s %s))))", n, n, strings.Join(fs, " "))
	if st.NumFields() == 0 {
		text = fmt.Sprintf("(declare-datatypes ((%s 0)) (((mk_%s))))", n, n)
	}
	s.reg.Add(n, text, deps...)
	s.reg.Add("mk_"+n, "", n)
	for i := 0; i < st.NumFields(); i++ {
		s.reg.Add(s.fieldSel(n, st, i), "", n)
	}
	return n
}

func (s *Sorts) fieldSel(sortName string, st *types.Struct, i int) string {
	fn := st.Field(i).Name()
	if fn == "_" {
		fn = fmt.Sprintf("blank%d", i)
	}
	return sortName + "_" + sanitize(fn)
}

// Zero returns the SMT term for the zero value of a type.
func (s *Sorts) Zero(t types.Type) string {
	switch u := t.Underlying().(type) {
	case *types.Basic:
		switch {
		case isBoolType(t):
			return "false"
		case isIntType(t):
			if isBVType(t, s.mode) {
				w, _, _ := intInfo(t)
				return bvLit(0, w)
			}
			return "0"
		case isFloatType(t):
			return "(fconst 0)"
		case isStringType(t):
			return "sempty"
		}
		return "0"
	case *types.Pointer, *types.Map, *types.Chan, *types.Signature:
		return "0"
	case *types.Slice:
		return "(mk_slice 0 0 0 0)"
	case *types.Array:
		return fmt.Sprintf("((as const %s) %s)", s.SortOf(t), s.Zero(u.Elem()))
	case *types.Struct:
		n := s.structSort(t, u)
		if u.NumFields() == 0 {
			return "mk_" + n
		}
		var fs []string
		for i := 0; i < u.NumFields(); i++ {
			fs = append(fs, s.Zero(u.Field(i).Type()))
		}
		return fmt.Sprintf("(mk_%s %s)", n, strings.Join(fs, " "))
	case *types.Interface:
		if u.NumMethods() == 0 {
			return "VNil"
		}
		return "0"
	}
	panic("Zero: unsupported type " + t.String())
}

func bvLit(v uint64, w int) string {
	if w%4 == 0 {
		return fmt.Sprintf("#x%0*x", w/4, v&mask(w))
	}
	return fmt.Sprintf("(_ bv%d %d)", v&mask(w), w)
}

func mask(w int) uint64 {
	if w >= 64 {
		return ^uint64(0)
	}
	return (uint64(1) << uint(w)) - 1
}

// ---------------------------------------------------------------------------
// small term helpers

func app(f string, args ...string) string {
	if len(args) == 0 {
		return f
	}
	return "(" + f + " " + strings.Join(args, " ") + ")"
}

func and(ts ...string) string {
	var xs []string
	for _, t := range ts {
		if t == "true" || t == "" {
			continue
		}
		if t == "false" {
			return "false"
		}
		xs = append(xs, t)
	}
	switch len(xs) {
	case 0:
		return "true"
	case 1:
		return xs[0]
	}
	return app("and", xs...)
}

func or(ts ...string) string {
	var xs []string
	for _, t := range ts {
		if t == "false" || t == "" {
			continue
		}
		if t == "true" {
			return "true"
		}
		xs = append(xs, t)
	}
	switch len(xs) {
	case 0:
		return "false"
	case 1:
		return xs[0]
	}
	return app("or", xs...)
}

func not(t string) string {
	switch t {
	case "true":
		return "false"
	case "false":
		return "true"
	}
	if strings.HasPrefix(t, "(not ") {
		return t[5 : len(t)-1]
	}
	return app("not", t)
}

func implies(a, b string) string {
	if a == "true" {
		return b
	}
	if a == "false" || b == "true" {
		return "true"
	}
	return app("=>", a, b)
}

func eq(a, b string) string {
	if a == b {
		return "true"
	}
	return app("=", a, b)
}

func intLit(v int64) string {
	if v < 0 {
		return fmt.Sprintf("(- %d)", -v)
	}
	return fmt.Sprintf("%d", v)
}
