package main

// Contract file parser: reads `//@` lines from the verif-tagged contract files
// in /repo and from the spec files in /verif/contracts.

import (
	"bufio"
	"fmt"
	"os"
	"path/filepath"
	"regexp"
	"sort"
	"strconv"
	"strings"
)

type Clause struct {
	Kind  string // requires ensures invariant assert ...
	Label string
	Props []string
	Expr  CExpr
	Src   string
	Loop  int
	Where string // file:line
	// for asserts at call sites
	At string
}

type ModItem struct {
	Src  string
	Expr CExpr // location expression: x.f, T.f (ident.ident), p[lo..hi), g.x, ext.name
}

type GhostAssign struct {
	Var  string
	Expr CExpr
	Src  string
}

type FuncContract struct {
	Name     string
	Pkg      string // "", "main", "uvarint"
	Props    []string
	Mode     Mode
	Extern   bool
	Slot     bool
	Params   []CVar // for extern/slot: names of parameters (and results)
	Results  []CVar
	Requires []*Clause
	Ensures  []*Clause
	LoopInv  map[int][]*Clause
	LoopMod  map[int][]ModItem
	Modifies []ModItem
	HasMod   bool
	Ghost    []GhostAssign
	GhostInit []GhostAssign
	LoopVar  map[int][]*Clause // increases/decreases
	LoopAssume map[int][]*Clause // hypotheses assumed at the loop head (composition hypotheses)
	LoopStep map[int][]*Clause // relations between loop head and back edge of one iteration
	Asserts  []*Clause
	Promises []*Clause
	Snapshots []*Clause
	NoInv    map[string]bool // invariants this function opts out of
	NoPanic  bool            // default true; `maypanic` sets false
	MayPanic bool
	Pure     bool // calls havoc nothing
	Where    string
	Uses     []string // lemmas to instantiate (as assumptions) everywhere in this function
	SlotOf   map[string]string // call through local var -> slot name
	LocalAlias map[string]LocalAlias // name a contract uses for a local -> how to find it if it was renamed
	Trusted  bool
	NoReturn bool
	Inline   bool
	Bounded  int
	mergeProps []string
	Implements string // slot whose contract this function is verified against (own asserts/loop clauses are merged in)
}

type PureFunc struct {
	Name    string
	Params  []CVar
	Result  string
	Body    CExpr // nil => uninterpreted
	Src     string
	Rec     bool
	Where   string
}

type Lemma struct {
	Name     string
	Props    []string
	Params   []CVar
	Requires []CExpr
	Ensures  []CExpr
	Induct   string // variable for induction, "" if none
	Mode     Mode
	Where    string
	Src      []string
	Axiom    bool // assumed, listed in evidence
}

type Invariant struct {
	Name   string
	Type   string // e.g. "*parser"
	Binder string
	Expr   CExpr
	Props  []string
	Src    string
	Where  string
	History bool // two-state: old() refers to the pre-state of a call
	Owned   bool // representation invariant owned by the type: assumed by its methods, not demanded from callers
}

type GhostVar struct {
	Name string
	Type string
}

type ConstCheck struct {
	Label string
	Props []string
	Expr  CExpr
	Src   string
	Where string
	Pkg   string
}

// LocalAlias: the k-th named local (or captured variable) of the given type, in source order.
type LocalAlias struct {
	Type string
	Ord  int
}

type GlobalInv struct {
	Label string
	Props []string
	Expr  CExpr
	Src   string
	Where string
}

type Contracts struct {
	Funcs     map[string]*FuncContract // key: qualified name
	Slots     map[string]*FuncContract
	Pures     map[string]*PureFunc
	PureOrder []string
	Lemmas    map[string]*Lemma
	LemmaOrder []string
	Invs      []*Invariant
	Ghosts    map[string]*GhostVar
	GhostOrder []string
	Consts    []*ConstCheck
	GlobalInvs []*GlobalInv
	Files     []string
	Assumptions []string // textual scan: extern, axiom, trusted
	MinObl    map[string]int
	Macros    map[string]*PureFunc // state-reading abbreviations, expanded at use sites
}

func NewContracts() *Contracts {
	return &Contracts{Funcs: map[string]*FuncContract{}, Slots: map[string]*FuncContract{}, Pures: map[string]*PureFunc{},
		Lemmas: map[string]*Lemma{}, Ghosts: map[string]*GhostVar{}, MinObl: map[string]int{}, Macros: map[string]*PureFunc{}}
}

type cline struct {
	text  string
	where string
}

func readContractLines(path string) ([]cline, error) {
	f, err := os.Open(path)
	if err != nil {
		return nil, err
	}
	defer f.Close()
	var out []cline
	sc := bufio.NewScanner(f)
	sc.Buffer(make([]byte, 1<<20), 1<<20)
	n := 0
	isGo := strings.HasSuffix(path, ".go")
	for sc.Scan() {
		n++
		line := sc.Text()
		t := strings.TrimSpace(line)
		if isGo {
			if !strings.HasPrefix(t, "//@") {
				continue
			}
			t = strings.TrimPrefix(t, "//@")
		} else {
			if strings.HasPrefix(t, "//@") {
				t = strings.TrimPrefix(t, "//@")
			}
		}
		// strip trailing comments " // ..." (not inside strings)
		t = stripComment(t)
		if strings.TrimSpace(t) == "" {
			continue
		}
		out = append(out, cline{t, fmt.Sprintf("%s:%d", filepath.Base(path), n)})
	}
	return out, sc.Err()
}

func stripComment(s string) string {
	inStr := false
	for i := 0; i+1 < len(s); i++ {
		if s[i] == '"' && (i == 0 || s[i-1] != '\\') {
			inStr = !inStr
		}
		if !inStr && s[i] == '/' && s[i+1] == '/' {
			return s[:i]
		}
	}
	return s
}

var kwRe = regexp.MustCompile(`^\s*(group|func|extern|slot|requires|ensures|modifies|invariant|history|loop|ghostinit|ghost|pure|lemma|axiom|const|global|assert|mode|maypanic|noinv|use|callslot|trusted|bounded|pkg|end|implements|macro|promise|noreturn|local|snapshot|inline)\b`)

var labelRe = regexp.MustCompile(`^\s*([A-Za-z_][A-Za-z0-9_]*)\s*:\s*(.*)$`)
var propsRe = regexp.MustCompile(`^\s*\[([A-Z0-9, ]+)\]\s*(.*)$`)

func splitProps(s string) (props []string, rest string) {
	if m := propsRe.FindStringSubmatch(s); m != nil {
		for _, p := range strings.Split(m[1], ",") {
			props = append(props, strings.TrimSpace(p))
		}
		return props, m[2]
	}
	return nil, s
}

func splitLabel(s string) (label, rest string) {
	if m := labelRe.FindStringSubmatch(s); m != nil {
		// avoid mistaking `c ? a : b` — labels are plain identifiers followed by ':' at start,
		// and must not be followed by ':' (the '::' of quantifiers).
		if !strings.HasPrefix(m[2], ":") && m[1] != "forall" && m[1] != "exists" {
			return m[1], m[2]
		}
	}
	return "", s
}

// LoadFile parses one contract file into c.
func (c *Contracts) LoadFile(path string) error {
	lines, err := readContractLines(path)
	if err != nil {
		return err
	}
	c.Files = append(c.Files, path)
	// join continuation lines: a line not starting with a keyword continues the previous one
	var stmts []cline
	for _, l := range lines {
		if kwRe.MatchString(l.text) || len(stmts) == 0 {
			stmts = append(stmts, l)
		} else {
			stmts[len(stmts)-1].text += " " + strings.TrimSpace(l.text)
		}
	}
	var groupProps []string
	var cur *FuncContract
	var curLemma *Lemma
	curPkg := ""
	fail := func(l cline, f string, a ...any) error {
		return fmt.Errorf("%s: %s (in %q)", l.where, fmt.Sprintf(f, a...), strings.TrimSpace(l.text))
	}
	for _, l := range stmts {
		m := kwRe.FindStringSubmatch(l.text)
		if m == nil {
			return fail(l, "expected keyword")
		}
		kw := m[1]
		rest := strings.TrimSpace(l.text[len(m[0]):])
		switch kw {
		case "pkg":
			curPkg = rest
			if curPkg == "bcl" {
				curPkg = ""
			}
		case "group":
			fs := strings.Fields(rest)
			groupProps = nil
			for i := 0; i < len(fs); i++ {
				if fs[i] == "min-obligations" && i+1 < len(fs) {
					n, _ := strconv.Atoi(fs[i+1])
					for _, p := range groupProps {
						c.MinObl[p] += n
					}
					i++
					continue
				}
				for _, p := range strings.Split(fs[i], ",") {
					if p != "" {
						groupProps = append(groupProps, p)
					}
				}
			}
			cur, curLemma = nil, nil
		case "end":
			cur, curLemma = nil, nil
		case "func", "extern", "slot":
			curLemma = nil
			props, r := splitProps(rest)
			if props == nil {
				props = groupProps
			}
			fc := &FuncContract{Props: props, LoopInv: map[int][]*Clause{}, LoopMod: map[int][]ModItem{}, NoInv: map[string]bool{}, Where: l.where, Pkg: curPkg, SlotOf: map[string]string{}}
			name, params, results, err := parseSig(r)
			if err != nil {
				return fail(l, "%v", err)
			}
			fc.Name, fc.Params, fc.Results = name, params, results
			if kw == "extern" {
				fc.Extern = true
				c.Assumptions = append(c.Assumptions, "extern contract (assumed): "+name+" @ "+l.where)
			}
			if kw == "slot" {
				fc.Slot = true
				if prev, ok := c.Slots[name]; ok {
					return fail(l, "duplicate slot %s (first at %s)", name, prev.Where)
				}
				c.Slots[name] = fc
			} else {
				key := name
				if fc.Pkg != "" && !strings.Contains(name, "/") && !fc.Extern {
					key = fc.Pkg + "." + name
				}
				if prev, ok := c.Funcs[key]; ok {
					// merge: additional block for the same function (other group)
					cur = prev
					for _, p := range props {
						if !contains(prev.Props, p) {
							prev.Props = append(prev.Props, p)
						}
					}
					cur.mergeProps = props
					continue
				}
				c.Funcs[key] = fc
			}
			fc.mergeProps = props
			cur = fc
		case "mode":
			if cur == nil && curLemma == nil {
				return fail(l, "mode outside func/lemma")
			}
			md := ModeMath
			if rest == "bv" {
				md = ModeBV
			}
			if curLemma != nil {
				curLemma.Mode = md
			} else {
				cur.Mode = md
			}
		case "implements":
			if cur == nil {
				return fail(l, "implements outside func")
			}
			cur.Implements = rest
		case "maypanic":
			cur.MayPanic = true
		case "trusted":
			cur.Trusted = true
			c.Assumptions = append(c.Assumptions, "trusted (body not verified): "+cur.Name+" @ "+l.where)
		case "inline":
			// the function is verified against this contract, but its callers execute its body
			// (its contract states facts about the primitive; callers keep seeing inside it)
			cur.Inline = true
		case "noreturn":
			// the function never returns normally (it exits the process or panics)
			cur.NoReturn = true
		case "bounded":
			n, _ := strconv.Atoi(rest)
			cur.Bounded = n
		case "noinv":
			for _, n := range strings.Fields(strings.ReplaceAll(rest, ",", " ")) {
				cur.NoInv[n] = true
			}
		case "use":
			if cur == nil {
				return fail(l, "use outside func")
			}
			for _, n := range strings.Fields(strings.ReplaceAll(rest, ",", " ")) {
				cur.Uses = append(cur.Uses, n)
			}
		case "local":
			// local <name> <ordinal> <type...>   (generated by `govc locals`; fallback when the local was renamed)
			if cur == nil {
				return fail(l, "local outside func")
			}
			fs := strings.Fields(rest)
			if len(fs) < 3 {
				return fail(l, "local <name> <ordinal> <type>")
			}
			n, err := strconv.Atoi(fs[1])
			if err != nil {
				return fail(l, "local <name> <ordinal> <type>")
			}
			if cur.LocalAlias == nil {
				cur.LocalAlias = map[string]LocalAlias{}
			}
			cur.LocalAlias[fs[0]] = LocalAlias{Type: strings.Join(fs[2:], " "), Ord: n}
		case "callslot":
			// callslot <localvar> <slotname>
			fs := strings.Fields(rest)
			if len(fs) != 2 || cur == nil {
				return fail(l, "callslot <var> <slot>")
			}
			cur.SlotOf[fs[0]] = fs[1]
		case "requires", "ensures":
			if curLemma != nil {
				e, err := ParseCExpr(rest)
				if err != nil {
					return fail(l, "%v", err)
				}
				if kw == "requires" {
					curLemma.Requires = append(curLemma.Requires, e)
				} else {
					curLemma.Ensures = append(curLemma.Ensures, e)
				}
				curLemma.Src = append(curLemma.Src, kw+" "+rest)
				continue
			}
			if cur == nil {
				return fail(l, "%s outside func", kw)
			}
			props, r := splitProps(rest)
			label, r := splitLabel(r)
			e, err := ParseCExpr(r)
			if err != nil {
				return fail(l, "%v", err)
			}
			if props == nil {
				props = cur.mergeProps
			}
			cl := &Clause{Kind: kw, Label: label, Props: props, Expr: e, Src: r, Where: l.where}
			if kw == "requires" {
				cur.Requires = append(cur.Requires, cl)
			} else {
				cur.Ensures = append(cur.Ensures, cl)
			}
		case "assert":
			// assert [props] label: at <callee>#n: expr   |  assert label: expr (at return)
			if cur == nil {
				return fail(l, "assert outside func")
			}
			props, r := splitProps(rest)
			label, r := splitLabel(r)
			at := ""
			if strings.HasPrefix(r, "at ") {
				i := strings.Index(r, ":")
				at = strings.TrimSpace(r[3:i])
				r = r[i+1:]
			}
			e, err := ParseCExpr(r)
			if err != nil {
				return fail(l, "%v", err)
			}
			if props == nil {
				props = cur.mergeProps
			}
			cur.Asserts = append(cur.Asserts, &Clause{Kind: "assert", Label: label, Props: props, Expr: e, Src: r, Where: l.where, At: at})
		case "snapshot":
			// snapshot <name>: at <callee>#n: expr   -- the value of expr just before that call, available
			// to later call-site assertions of the same function as $<name>
			if cur == nil {
				return fail(l, "snapshot outside func")
			}
			{
				label, r := splitLabel(rest)
				if label == "" || !strings.HasPrefix(r, "at ") {
					return fail(l, "snapshot name: at <callee>#n: expr")
				}
				i := strings.Index(r, ":")
				at := strings.TrimSpace(r[3:i])
				e, err := ParseCExpr(r[i+1:])
				if err != nil {
					return fail(l, "%v", err)
				}
				cur.Snapshots = append(cur.Snapshots, &Clause{Kind: "snapshot", Label: label, Expr: e, Src: r[i+1:], Where: l.where, At: at})
			}
		case "promise":
			// promise [props] label: at <chan>: expr  -- holds at every send on the channel (checked in the
			// goroutines started by this function), assumed after every receive from it in this function
			if cur == nil {
				return fail(l, "promise outside func")
			}
			{
				props, r := splitProps(rest)
				label, r := splitLabel(r)
				if !strings.HasPrefix(r, "at ") {
					return fail(l, "promise label: at <chan>: expr")
				}
				i := strings.Index(r, ":")
				at := strings.TrimSpace(r[3:i])
				r = r[i+1:]
				e, err := ParseCExpr(r)
				if err != nil {
					return fail(l, "%v", err)
				}
				if props == nil {
					props = cur.mergeProps
				}
				cur.Promises = append(cur.Promises, &Clause{Kind: "promise", Label: label, Props: props, Expr: e, Src: r, Where: l.where, At: at})
				c.Assumptions = append(c.Assumptions, "channel promise "+label+" on "+at+": assumed after receive, discharged at every send by the started goroutines (rely/guarantee; needs the hand-off discipline) @ "+l.where)
			}
		case "modifies":
			if cur == nil {
				return fail(l, "modifies outside func")
			}
			cur.HasMod = true
			if rest == "nothing" {
				continue
			}
			for _, it := range splitTop(rest, ',') {
				it = strings.TrimSpace(it)
				e, err := ParseCExpr(it)
				if err != nil {
					return fail(l, "%v", err)
				}
				cur.Modifies = append(cur.Modifies, ModItem{it, e})
			}
		case "loop":
			if cur == nil {
				return fail(l, "loop outside func")
			}
			fs := strings.SplitN(rest, " ", 3)
			if len(fs) < 3 {
				return fail(l, "loop <n> invariant|modifies <expr>")
			}
			n, err := strconv.Atoi(fs[0])
			if err != nil {
				return fail(l, "loop ordinal: %v", err)
			}
			switch fs[1] {
			case "invariant":
				props, r := splitProps(fs[2])
				label, r := splitLabel(r)
				e, err := ParseCExpr(r)
				if err != nil {
					return fail(l, "%v", err)
				}
				if props == nil {
					props = cur.mergeProps
				}
				cur.LoopInv[n] = append(cur.LoopInv[n], &Clause{Kind: "invariant", Label: label, Props: props, Expr: e, Src: r, Loop: n, Where: l.where})
			case "modifies":
				for _, it := range splitTop(fs[2], ',') {
					it = strings.TrimSpace(it)
					e, err := ParseCExpr(it)
					if err != nil {
						return fail(l, "%v", err)
					}
					cur.LoopMod[n] = append(cur.LoopMod[n], ModItem{it, e})
				}
			case "assume", "step", "breakstep":
				// breakstep: a step clause that must also hold when the iteration leaves the loop from its body
				props, r := splitProps(fs[2])
				label, r := splitLabel(r)
				e, err := ParseCExpr(r)
				if err != nil {
					return fail(l, "%v", err)
				}
				if props == nil {
					props = cur.mergeProps
				}
				cl := &Clause{Kind: fs[1], Label: label, Props: props, Expr: e, Src: r, Loop: n, Where: l.where}
				if fs[1] == "breakstep" {
					cl.Kind = "step"
					cl.At = "break"
				}
				if fs[1] == "assume" {
					if cur.LoopAssume == nil {
						cur.LoopAssume = map[int][]*Clause{}
					}
					cur.LoopAssume[n] = append(cur.LoopAssume[n], cl)
					c.Assumptions = append(c.Assumptions, fmt.Sprintf("loop-head hypothesis (assumed, not proved) in %s loop %d: %s @ %s", cur.Name, n, r, l.where))
				} else {
					if cur.LoopStep == nil {
						cur.LoopStep = map[int][]*Clause{}
					}
					cur.LoopStep[n] = append(cur.LoopStep[n], cl)
				}
			case "increases", "decreases":
				vprops, vr := splitProps(fs[2])
				if vprops == nil {
					vprops = cur.mergeProps
				}
				e, err := ParseCExpr(vr)
				if err != nil {
					return fail(l, "%v", err)
				}
				if cur.LoopVar == nil {
					cur.LoopVar = map[int][]*Clause{}
				}
				cur.LoopVar[n] = append(cur.LoopVar[n], &Clause{Kind: fs[1], Label: fs[1], Props: vprops, Expr: e, Src: vr, Loop: n, Where: l.where})
			default:
				return fail(l, "unknown loop clause %q", fs[1])
			}
		case "ghostinit":
			if cur == nil {
				return fail(l, "ghostinit outside func")
			}
			for _, as := range splitTop(rest, ';') {
				as = strings.TrimSpace(as)
				if as == "" {
					continue
				}
				i := strings.Index(as, "=")
				v := strings.TrimPrefix(strings.TrimSpace(as[:i]), "g.")
				e, err := ParseCExpr(as[i+1:])
				if err != nil {
					return fail(l, "%v", err)
				}
				cur.GhostInit = append(cur.GhostInit, GhostAssign{v, e, as})
			}
		case "ghost":
			if strings.HasPrefix(rest, "var ") {
				fs := strings.Fields(rest[4:])
				if len(fs) < 2 {
					return fail(l, "ghost var <name> <type>")
				}
				g := &GhostVar{Name: fs[0], Type: strings.Join(fs[1:], " ")}
				if strings.HasPrefix(g.Name, "ev_src_") {
					c.Assumptions = append(c.Assumptions, "prophecy variable "+g.Name+": defined as the concatenation of all values channel "+strings.TrimPrefix(g.Name, "ev_src_")+" will ever deliver; every received chunk is assumed to be its next piece and a closed channel to mean it was received completely @ "+l.where)
				}
				if _, ok := c.Ghosts[g.Name]; !ok {
					c.GhostOrder = append(c.GhostOrder, g.Name)
				}
				c.Ghosts[g.Name] = g
				continue
			}
			if cur == nil {
				return fail(l, "ghost effect outside func")
			}
			for _, as := range splitTop(rest, ';') {
				as = strings.TrimSpace(as)
				if as == "" {
					continue
				}
				i := strings.Index(as, "=")
				if i < 0 {
					return fail(l, "ghost assignment needs '='")
				}
				v := strings.TrimSpace(as[:i])
				v = strings.TrimPrefix(v, "g.")
				e, err := ParseCExpr(as[i+1:])
				if err != nil {
					return fail(l, "%v", err)
				}
				cur.Ghost = append(cur.Ghost, GhostAssign{v, e, as})
			}
		case "macro":
			// macro name(params) = body   (body may read the heap; expanded where used)
			r := rest
			i := indexTop(r, '=')
			if i < 0 {
				return fail(l, "macro needs a body")
			}
			body := strings.TrimSpace(r[i+1:])
			name, params, _, err := parseSig(strings.TrimSpace(r[:i]))
			if err != nil {
				return fail(l, "%v", err)
			}
			e, err := ParseCExpr(body)
			if err != nil {
				return fail(l, "%v", err)
			}
			c.Macros[name] = &PureFunc{Name: name, Params: params, Body: e, Src: rest, Where: l.where}
			cur, curLemma = nil, nil
		case "pure":
			// pure func name(params) result = body     | pure func name(params) result   (uninterpreted)
			r := strings.TrimSpace(strings.TrimPrefix(rest, "func"))
			rec := false
			if strings.HasPrefix(r, "rec ") {
				rec = true
				r = r[4:]
			}
			body := ""
			if i := indexTop(r, '='); i >= 0 {
				body = strings.TrimSpace(r[i+1:])
				r = strings.TrimSpace(r[:i])
			}
			name, params, results, err := parseSig(r)
			if err != nil {
				return fail(l, "%v", err)
			}
			if len(results) != 1 {
				return fail(l, "pure func needs exactly one result type")
			}
			pf := &PureFunc{Name: name, Params: params, Result: results[0].Type, Src: rest, Rec: rec, Where: l.where}
			if body != "" {
				e, err := ParseCExpr(body)
				if err != nil {
					return fail(l, "%v", err)
				}
				pf.Body = e
			} else {
				c.Assumptions = append(c.Assumptions, "uninterpreted spec function: "+name+" @ "+l.where)
			}
			if _, ok := c.Pures[name]; ok {
				return fail(l, "duplicate pure func %s", name)
			}
			c.Pures[name] = pf
			c.PureOrder = append(c.PureOrder, name)
			cur, curLemma = nil, nil
		case "lemma", "axiom":
			props, r := splitProps(rest)
			if props == nil {
				props = groupProps
			}
			induct := ""
			if i := strings.Index(r, " by induction on "); i >= 0 {
				induct = strings.TrimSpace(r[i+len(" by induction on "):])
				r = r[:i]
			}
			name, params, _, err := parseSig(r)
			if err != nil {
				return fail(l, "%v", err)
			}
			lm := &Lemma{Name: name, Props: props, Params: params, Induct: induct, Where: l.where, Axiom: kw == "axiom"}
			if kw == "axiom" {
				c.Assumptions = append(c.Assumptions, "axiom (assumed): "+name+" @ "+l.where)
			}
			c.Lemmas[name] = lm
			c.LemmaOrder = append(c.LemmaOrder, name)
			curLemma = lm
			cur = nil
		case "invariant", "history":
			// invariant [props] name (p *parser): expr
			props, r := splitProps(rest)
			if props == nil {
				props = groupProps
			}
			i := strings.Index(r, "(")
			j := strings.Index(r, ")")
			k := strings.Index(r, ":")
			if i < 0 || j < i || k < j {
				return fail(l, "invariant <name> (<binder> <type>): <expr>")
			}
			name := strings.TrimSpace(r[:i])
			owned := false
			if strings.HasPrefix(name, "owned ") {
				owned = true
				name = strings.TrimSpace(name[6:])
			}
			bt := strings.Fields(r[i+1 : j])
			if len(bt) != 2 {
				return fail(l, "invariant binder")
			}
			e, err := ParseCExpr(r[strings.Index(r[j:], ":")+j+1:])
			if err != nil {
				return fail(l, "%v", err)
			}
			c.Invs = append(c.Invs, &Invariant{Name: name, Type: bt[1], Binder: bt[0], Expr: e, Props: props, Src: r, Where: l.where, History: kw == "history", Owned: owned})
		case "const":
			props, r := splitProps(rest)
			if props == nil {
				props = groupProps
			}
			label, r := splitLabel(r)
			e, err := ParseCExpr(r)
			if err != nil {
				return fail(l, "%v", err)
			}
			c.Consts = append(c.Consts, &ConstCheck{Label: label, Props: props, Expr: e, Src: r, Where: l.where, Pkg: curPkg})
		case "global":
			props, r := splitProps(rest)
			if props == nil {
				props = groupProps
			}
			label, r := splitLabel(r)
			e, err := ParseCExpr(r)
			if err != nil {
				return fail(l, "%v", err)
			}
			c.GlobalInvs = append(c.GlobalInvs, &GlobalInv{Label: label, Props: props, Expr: e, Src: r, Where: l.where})
		}
	}
	return nil
}

func contains(xs []string, x string) bool {
	for _, y := range xs {
		if y == x {
			return true
		}
	}
	return false
}

// splitTop splits s at sep occurrences that are not nested in brackets or strings.
func splitTop(s string, sep byte) []string {
	var out []string
	depth := 0
	inStr := false
	last := 0
	for i := 0; i < len(s); i++ {
		c := s[i]
		if c == '"' && (i == 0 || s[i-1] != '\\') {
			inStr = !inStr
		}
		if inStr {
			continue
		}
		switch c {
		case '(', '[', '{':
			depth++
		case ')', ']', '}':
			depth--
		}
		if c == sep && depth == 0 {
			out = append(out, s[last:i])
			last = i + 1
		}
	}
	out = append(out, s[last:])
	return out
}

func indexTop(s string, sep byte) int {
	depth := 0
	for i := 0; i < len(s); i++ {
		switch s[i] {
		case '(', '[':
			depth++
		case ')', ']':
			depth--
		}
		if s[i] == sep && depth == 0 {
			// not part of ==, <=, >=, !=
			if sep == '=' {
				if i+1 < len(s) && s[i+1] == '=' {
					i++
					continue
				}
				if i > 0 && strings.ContainsRune("<>!=", rune(s[i-1])) {
					continue
				}
			}
			return i
		}
	}
	return -1
}

// parseSig parses `name(p1 T1, p2 T2) R` / `name(p T) (r1 R1, r2 R2)` / `name`.
// name may be `(*T).m` or `pkg.f`.
func parseSig(s string) (name string, params, results []CVar, err error) {
	s = strings.TrimSpace(s)
	// find the parameter list: the first parenthesised group that is not a
	// receiver group (a receiver group is followed by '.'), e.g. `bufio.(*Reader).Peek(b ...)`
	i := 0
	k := -1
	for i < len(s) {
		j := strings.Index(s[i:], "(")
		if j < 0 {
			break
		}
		j += i
		depth := 0
		e := -1
		for q := j; q < len(s); q++ {
			if s[q] == '(' {
				depth++
			}
			if s[q] == ')' {
				depth--
				if depth == 0 {
					e = q
					break
				}
			}
		}
		if e < 0 {
			return "", nil, nil, fmt.Errorf("unbalanced parens in %q", s)
		}
		if e+1 < len(s) && s[e+1] == '.' {
			i = e + 1
			continue
		}
		k = j
		break
	}
	if k < 0 {
		return strings.TrimSpace(s), nil, nil, nil
	}
	name = strings.TrimSpace(s[:k])
	// matching paren
	depth := 0
	end := -1
	for j := k; j < len(s); j++ {
		if s[j] == '(' {
			depth++
		}
		if s[j] == ')' {
			depth--
			if depth == 0 {
				end = j
				break
			}
		}
	}
	if end < 0 {
		return "", nil, nil, fmt.Errorf("unbalanced parens in %q", s)
	}
	params = parseVars(s[k+1 : end])
	r := strings.TrimSpace(s[end+1:])
	if r != "" {
		if strings.HasPrefix(r, "(") && strings.HasSuffix(r, ")") {
			results = parseVars(r[1 : len(r)-1])
		} else {
			results = []CVar{{"result", r}}
		}
	}
	return name, params, results, nil
}

func parseVars(s string) []CVar {
	var out []CVar
	for _, part := range splitTop(s, ',') {
		part = strings.TrimSpace(part)
		if part == "" {
			continue
		}
		fs := strings.SplitN(part, " ", 2)
		if len(fs) == 1 {
			out = append(out, CVar{fs[0], ""})
		} else {
			out = append(out, CVar{fs[0], strings.TrimSpace(fs[1])})
		}
	}
	// Go-style grouping: a, b int
	for i := len(out) - 2; i >= 0; i-- {
		if out[i].Type == "" {
			out[i].Type = out[i+1].Type
		}
	}
	return out
}

func (c *Contracts) SortedFuncNames() []string {
	var ns []string
	for n := range c.Funcs {
		ns = append(ns, n)
	}
	sort.Strings(ns)
	return ns
}
