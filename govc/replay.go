package main

// Replay of counterexamples against the real code (go test -overlay).

func tryReplay(rep *report, a *aggObl, path string) bool { return false }

func cmdReplay(args []string) int { return 0 }
