package main

// Replay of counterexamples against the real code.
//
// Scope (stated in DESIGN.md §11): functions whose parameters and results are
// scalars (integers of any size, bool, named integer types) or `value`
// interfaces holding an int, a bool or nil, and whose failed clause does not
// read the heap. For these the solver's model is turned into a call of the real
// function (an in-package Go test injected with `go test -overlay`, nothing is
// written into the repository), and
//   - for a panic site (`safe`): the violation is confirmed if the call panics;
//   - for a postcondition: the clause is instantiated with the concrete inputs
//     and the outputs the real code produced and decided by the solver as a
//     ground formula; the violation is confirmed if the clause is false.
// Everything else is reported with `no-failing-input-found`.

import (
	"context"
	"encoding/json"
	"fmt"
	"go/constant"
	"go/types"
	"os"
	"os/exec"
	"path/filepath"
	"regexp"
	"strconv"
	"strings"
	"time"

	"golang.org/x/tools/go/ssa"
)

type replayInput struct {
	Name string
	Term string
	Typ  types.Type
}

type replayRecord struct {
	Function string            `json:"function"`
	Inputs   map[string]string `json:"inputs"`
	GoTest   string            `json:"go_test"`
	Dir      string            `json:"dir"`
	Output   string            `json:"output"`
	Ground   string            `json:"ground_check,omitempty"`
	Verdict  string            `json:"verdict"`
}

// replayable type classes
func replayClass(t types.Type) string {
	if t == nil {
		return ""
	}
	if isValIface(t) {
		return "val"
	}
	switch u := t.Underlying().(type) {
	case *types.Basic:
		switch {
		case u.Info()&types.IsInteger != 0:
			return "int"
		case u.Info()&types.IsBoolean != 0:
			return "bool"
		}
	case *types.Interface:
		if types.Identical(t, types.Universe.Lookup("error").Type()) {
			return "err"
		}
	}
	return ""
}

func goTypeName(t types.Type) string {
	return types.TypeString(t, func(p *types.Package) string {
		if p.Path() == bclPath || p.Path() == mainPath {
			return ""
		}
		return p.Name()
	})
}

var reNum = regexp.MustCompile(`^\(?\s*-?\s*\d+\s*\)?$`)

// smtIntValue parses 5, (- 5), #x0f, #b101.
func smtIntValue(s string) (string, bool) {
	s = strings.TrimSpace(s)
	if strings.HasPrefix(s, "#x") {
		v, err := strconv.ParseUint(s[2:], 16, 64)
		if err != nil {
			return "", false
		}
		return fmt.Sprint(v), true
	}
	if strings.HasPrefix(s, "#b") {
		v, err := strconv.ParseUint(s[2:], 2, 64)
		if err != nil {
			return "", false
		}
		return fmt.Sprint(v), true
	}
	if strings.HasPrefix(s, "(-") {
		in := strings.TrimSpace(strings.TrimSuffix(strings.TrimPrefix(s, "(-"), ")"))
		if _, err := strconv.ParseUint(in, 10, 64); err == nil {
			return "-" + in, true
		}
		return "", false
	}
	if _, err := strconv.ParseUint(s, 10, 64); err == nil {
		return s, true
	}
	return "", false
}

// goLiteral turns a model value into a Go expression of type t.
func goLiteral(val string, t types.Type) (string, bool) {
	val = strings.TrimSpace(val)
	switch replayClass(t) {
	case "int":
		n, ok := smtIntValue(val)
		if !ok {
			return "", false
		}
		// unsigned bit patterns of signed bv types
		if b, isB := t.Underlying().(*types.Basic); isB && b.Info()&types.IsUnsigned == 0 && !strings.HasPrefix(n, "-") {
			if u, err := strconv.ParseUint(n, 10, 64); err == nil && u > 1<<63-1 {
				return fmt.Sprintf("%s(%d)", goTypeName(t), int64(u)), true
			}
		}
		return fmt.Sprintf("%s(%s)", goTypeName(t), n), true
	case "bool":
		if val == "true" || val == "false" {
			return val, true
		}
	case "val":
		switch {
		case val == "VNil":
			return "value(nil)", true
		case strings.HasPrefix(val, "(VInt "):
			n, ok := smtIntValue(strings.TrimSuffix(strings.TrimPrefix(val, "(VInt "), ")"))
			if ok {
				return "value(int(" + n + "))", true
			}
		case strings.HasPrefix(val, "(VBool "):
			b := strings.TrimSuffix(strings.TrimPrefix(val, "(VBool "), ")")
			if b == "true" || b == "false" {
				return "value(" + b + ")", true
			}
		}
	}
	return "", false
}

// ValuesOf asks the solver for the values of terms in a model of the failed obligation.
func (d *Discharger) ValuesOf(reg *Registry, o *Obligation, terms []string) (map[string]string, bool) {
	script := assembleScript(reg, o, false, true, false)
	script = strings.Replace(script, "(get-model)\n", "", 1)
	// declarations of terms the pruned script does not mention
	var extra strings.Builder
	for _, dcl := range reg.Closure(strings.Join(terms, " ")) {
		if dcl.Text != "" && !strings.Contains(script, dcl.Text) {
			extra.WriteString(dcl.Text + "\n")
		}
	}
	script = strings.Replace(script, "(check-sat)\n", extra.String()+"(check-sat)\n", 1)
	for _, t := range terms {
		script += fmt.Sprintf("(get-value (%s))\n", t)
	}
	sr := runSolver(context.Background(), solvers[0], script, d.Dir, "values_"+sanitize(trunc(o.Name, 50)), 10)
	lines := strings.Split(strings.TrimSpace(sr.Output), "\n")
	var clean []string
	for _, l := range lines {
		if !strings.HasPrefix(l, "WARNING") {
			clean = append(clean, l)
		}
	}
	if len(clean) == 0 || strings.TrimSpace(clean[0]) != "sat" {
		return nil, false
	}
	rest := strings.Join(clean[1:], " ")
	out := map[string]string{}
	// each answer has the form ((term value))
	for _, t := range terms {
		key := "((" + t + " "
		i := strings.Index(rest, key)
		if i < 0 {
			return nil, false
		}
		j := i + len(key)
		depth := 0
		k := j
		for ; k < len(rest); k++ {
			if rest[k] == '(' {
				depth++
			} else if rest[k] == ')' {
				if depth == 0 {
					break
				}
				depth--
			}
		}
		out[t] = strings.TrimSpace(rest[j:k])
	}
	return out, true
}

var reFnEq = regexp.MustCompile(`([A-Za-z_][A-Za-z0-9_\.\[\]]*)\s*==\s*fn\("([A-Za-z_][A-Za-z0-9_]*)"\)`)

// replayGlobalFact: a quantifier-free fact about package-level variables is written in the
// Go subset of the contract language; it is evaluated by the real, initialised package.
func replayGlobalFact(rep *report, o *Obligation, path string) bool {
	src := strings.TrimSpace(o.Src)
	if strings.Contains(src, "forall") || strings.Contains(src, "exists") || strings.Contains(src, "has(") || strings.Contains(src, "==>") || strings.Contains(src, "old(") {
		return false
	}
	expr := reFnEq.ReplaceAllString(src, "govcSameFn($1, $2)")
	if strings.Contains(expr, "fn(") {
		return false
	}
	pkgName, dir := "bcl", rep.ck.P.RepoDir
	if o.Fn != nil && o.Fn.Pkg.Pkg.Path() == mainPath {
		pkgName, dir = "main", filepath.Join(dir, "cmd/bcl")
	}
	var sb strings.Builder
	fmt.Fprintf(&sb, "package %s\n\nimport (\n\t\"fmt\"\n\t\"reflect\"\n\t\"testing\"\n)\n\n", pkgName)
	sb.WriteString("func govcSameFn(a, b any) bool {\n\tva, vb := reflect.ValueOf(a), reflect.ValueOf(b)\n\tif !va.IsValid() || !vb.IsValid() || va.Kind() != reflect.Func || vb.Kind() != reflect.Func || va.IsNil() || vb.IsNil() {\n\t\treturn false\n\t}\n\treturn va.Pointer() == vb.Pointer()\n}\n\n")
	fmt.Fprintf(&sb, "func TestGovcReplay(t *testing.T) {\n\tif %s {\n\t\tfmt.Println(\"REPLAY-FACT true\")\n\t} else {\n\t\tfmt.Println(\"REPLAY-FACT false\")\n\t}\n\tfmt.Println(\"REPLAY-DONE\")\n}\n", expr)
	rec := &replayRecord{Function: "package initialisation", Inputs: map[string]string{}, GoTest: sb.String(), Dir: dir}
	out, ok := runReplayTest(rec.GoTest, dir)
	rec.Output = out
	confirmed := false
	switch {
	case !ok:
		rec.Verdict = "replay could not be run (the fact is not in the Go subset)"
	case strings.Contains(out, "REPLAY-FACT false"):
		rec.Verdict = "confirmed: the fact is false in the initialised package"
		confirmed = true
	default:
		rec.Verdict = "not reproduced: the fact holds in the initialised package"
	}
	appendReplay(path, rec)
	return confirmed
}

func tryReplay(rep *report, a *aggObl, path string) bool {
	f := a.Fail
	if f == nil || f.O == nil || f.O.Fn == nil {
		return false
	}
	if f.O.Kind == "global" {
		return replayGlobalFact(rep, f.O, path)
	}
	if f.Res.Status != "sat" {
		return false
	}
	o := f.O
	if o.Kind != "safe" && o.Kind != "post" {
		return false
	}
	fn := o.Fn
	if fn.Signature.Recv() != nil || len(fn.FreeVars) > 0 || fn.Signature.Variadic() {
		return false
	}
	for _, p := range fn.Params {
		if c := replayClass(p.Type()); c != "int" && c != "bool" && c != "val" {
			return false
		}
	}
	res := fn.Signature.Results()
	for i := 0; i < res.Len(); i++ {
		if replayClass(res.At(i).Type()) == "" {
			return false
		}
	}
	var reg *Registry
	for _, j := range rep.ck.jobs {
		if j.o == o {
			reg = j.reg
		}
	}
	if reg == nil {
		return false
	}
	var terms []string
	for _, in := range o.Inputs {
		terms = append(terms, in.Term)
	}
	vals := map[string]string{}
	if len(terms) > 0 {
		v, ok := rep.dis.ValuesOf(reg, o, terms)
		if !ok {
			return false
		}
		vals = v
	}
	rec := &replayRecord{Function: rep.ck.P.FuncName(fn), Inputs: map[string]string{}}
	var args []string
	for _, p := range fn.Params {
		var in *replayInput
		for i := range o.Inputs {
			if o.Inputs[i].Name == p.Name() {
				in = &o.Inputs[i]
			}
		}
		if in == nil {
			return false
		}
		lit, ok := goLiteral(vals[in.Term], p.Type())
		if !ok {
			return false
		}
		rec.Inputs[p.Name()] = lit
		args = append(args, lit)
	}
	// the Go test
	var sb strings.Builder
	pkgName := fn.Pkg.Pkg.Name()
	fmt.Fprintf(&sb, "package %s\n\nimport (\n\t\"fmt\"\n\t\"testing\"\n)\n\n", pkgName)
	fmt.Fprintf(&sb, "func TestGovcReplay(t *testing.T) {\n\tdefer func() {\n\t\tif r := recover(); r != nil {\n\t\t\tfmt.Printf(\"REPLAY-PANIC: %%v\\n\", r)\n\t\t}\n\t}()\n")
	var rs []string
	for i := 0; i < res.Len(); i++ {
		rs = append(rs, fmt.Sprintf("r%d", i))
	}
	call := fmt.Sprintf("%s(%s)", fn.Name(), strings.Join(args, ", "))
	if len(rs) > 0 {
		fmt.Fprintf(&sb, "\t%s := %s\n", strings.Join(rs, ", "), call)
	} else {
		fmt.Fprintf(&sb, "\t%s\n", call)
	}
	for i := 0; i < res.Len(); i++ {
		switch replayClass(res.At(i).Type()) {
		case "int":
			fmt.Fprintf(&sb, "\tfmt.Printf(\"REPLAY-RESULT %d int %%d\\n\", r%d)\n", i, i)
		case "bool":
			fmt.Fprintf(&sb, "\tfmt.Printf(\"REPLAY-RESULT %d bool %%v\\n\", r%d)\n", i, i)
		case "err":
			fmt.Fprintf(&sb, "\tfmt.Printf(\"REPLAY-RESULT %d err %%v\\n\", r%d != nil)\n", i, i)
		case "val":
			fmt.Fprintf(&sb, "\tswch%d := any(r%d)\n\tswitch v := swch%d.(type) {\n\tcase nil:\n\t\tfmt.Printf(\"REPLAY-RESULT %d val nil\\n\")\n\tcase int:\n\t\tfmt.Printf(\"REPLAY-RESULT %d val int %%d\\n\", v)\n\tcase bool:\n\t\tfmt.Printf(\"REPLAY-RESULT %d val bool %%v\\n\", v)\n\tdefault:\n\t\tfmt.Printf(\"REPLAY-RESULT %d val other %%T\\n\", v)\n\t}\n", i, i, i, i, i, i, i)
		}
	}
	sb.WriteString("\tfmt.Println(\"REPLAY-DONE\")\n}\n")
	rec.GoTest = sb.String()
	dir := rep.ck.P.RepoDir
	if fn.Pkg.Pkg.Path() == mainPath {
		dir = filepath.Join(dir, "cmd/bcl")
	}
	rec.Dir = dir
	out, ok := runReplayTest(rec.GoTest, dir)
	rec.Output = out
	if !ok {
		rec.Verdict = "replay could not be run"
		appendReplay(path, rec)
		return false
	}
	confirmed := false
	switch o.Kind {
	case "safe":
		if strings.Contains(out, "REPLAY-PANIC:") {
			confirmed = true
			rec.Verdict = "confirmed: the real code panics on the solver's input"
		} else {
			rec.Verdict = "not reproduced: the real code does not panic on the solver's input"
		}
	case "post":
		if strings.Contains(out, "REPLAY-PANIC:") {
			rec.Verdict = "the real code panics on the solver's input (postcondition not evaluated)"
			confirmed = true
			break
		}
		if o.Clause == nil {
			rec.Verdict = "no clause attached"
			break
		}
		verdict, script := groundCheck(rep, o, fn, rec, out)
		rec.Ground = script
		rec.Verdict = verdict
		confirmed = strings.HasPrefix(verdict, "confirmed")
	}
	appendReplay(path, rec)
	return confirmed
}

func runReplayTest(src, dir string) (string, bool) {
	work := filepath.Join(verifDir, "work", "replay")
	os.MkdirAll(work, 0o755)
	tf := filepath.Join(work, fmt.Sprintf("replay_%d_test.go", os.Getpid()))
	if err := os.WriteFile(tf, []byte(src), 0o644); err != nil {
		return err.Error(), false
	}
	defer os.Remove(tf)
	ov := map[string]any{"Replace": map[string]string{filepath.Join(dir, "zz_govc_replay_test.go"): tf}}
	b, _ := json.Marshal(ov)
	of := filepath.Join(work, fmt.Sprintf("overlay_%d.json", os.Getpid()))
	os.WriteFile(of, b, 0o644)
	defer os.Remove(of)
	ctx, cancel := context.WithTimeout(context.Background(), 120*time.Second)
	defer cancel()
	cmd := exec.CommandContext(ctx, "go", "test", "-overlay", of, "-vet=off", "-count=1", "-timeout", "60s", "-run", "^TestGovcReplay$", "-v", ".")
	cmd.Dir = dir
	cmd.Env = append(os.Environ(), "GOFLAGS=-mod=mod", "GOPROXY=off", "GOSUMDB=off", "GOTOOLCHAIN=local")
	out, _ := cmd.CombinedOutput()
	s := string(out)
	return s, strings.Contains(s, "REPLAY-DONE") || strings.Contains(s, "REPLAY-PANIC:")
}

var reResult = regexp.MustCompile(`(?m)^REPLAY-RESULT (\d+) (\w+) (.*)$`)

// groundCheck instantiates the failed clause with the concrete inputs and the
// outputs of the real code and lets the solver decide the ground formula.
func groundCheck(rep *report, o *Obligation, fn *ssa.Function, rec *replayRecord, out string) (verdict string, script string) {
	defer func() {
		if r := recover(); r != nil {
			verdict = fmt.Sprintf("clause could not be instantiated on concrete values (%v)", r)
		}
	}()
	x := NewExec(rep.ck.P, rep.ck.C, o.Mode)
	x.Eff = rep.ck.Eff
	x.fn = fn
	x.fname = rep.ck.P.FuncName(fn)
	x.curPkg = fn.Pkg.Pkg
	st := &State{cells: map[*Cell]*Value{}, heaps: map[string]string{}, hsort: map[string]string{}, ghost: map[string]*Value{}, callNo: map[string]int{}}
	fr := &Frame{Fn: fn, Regs: map[ssa.Value]*Value{}, Allocs: map[*ssa.Alloc]*Pointer{}, Params: map[string]*Value{}}
	st.frames = []*Frame{fr}
	x.entry = st
	env := x.envFor(st, st, fr)
	lit := func(goLit string, t types.Type) *Value {
		// goLit has the form T(n), true/false, value(...)
		switch replayClass(t) {
		case "int":
			i := strings.Index(goLit, "(")
			n := strings.TrimSuffix(goLit[i+1:], ")")
			k := constant.MakeFromLiteral(strings.TrimPrefix(n, "-"), 5 /* token.INT */, 0)
			if strings.HasPrefix(n, "-") {
				k = constant.UnaryOp(13 /* token.SUB */, k, 0)
			}
			return &Value{Typ: t, K: k}
		case "bool":
			return &Value{Typ: t, K: constant.MakeBool(goLit == "true")}
		case "val":
			inner := strings.TrimSuffix(strings.TrimPrefix(goLit, "value("), ")")
			switch {
			case inner == "nil":
				return &Value{T: "VNil", Typ: t}
			case inner == "true" || inner == "false":
				return &Value{T: "(VBool " + inner + ")", Typ: t}
			case strings.HasPrefix(inner, "int("):
				n := strings.TrimSuffix(strings.TrimPrefix(inner, "int("), ")")
				if strings.HasPrefix(n, "-") {
					return &Value{T: "(VInt (- " + n[1:] + "))", Typ: t}
				}
				return &Value{T: "(VInt " + n + ")", Typ: t}
			}
		}
		panic("unsupported literal " + goLit)
	}
	for _, p := range fn.Params {
		v := lit(rec.Inputs[p.Name()], p.Type())
		env.vars[p.Name()] = v
		fr.Params[p.Name()] = v
	}
	x.entryParams = fr.Params
	rs := fn.Signature.Results()
	resVals := make([]*Value, rs.Len())
	for _, m := range reResult.FindAllStringSubmatch(out, -1) {
		i, _ := strconv.Atoi(m[1])
		if i >= rs.Len() {
			continue
		}
		t := rs.At(i).Type()
		switch m[2] {
		case "int":
			resVals[i] = lit(fmt.Sprintf("%s(%s)", goTypeName(t), strings.TrimSpace(m[3])), t)
		case "bool":
			resVals[i] = lit(strings.TrimSpace(m[3]), t)
		case "err":
			if strings.TrimSpace(m[3]) == "true" {
				resVals[i] = &Value{T: "7", Typ: t}
			} else {
				resVals[i] = &Value{T: "0", Typ: t}
			}
		case "val":
			f := strings.Fields(m[3])
			switch {
			case len(f) == 1 && f[0] == "nil":
				resVals[i] = &Value{T: "VNil", Typ: t}
			case len(f) == 2 && f[0] == "int":
				resVals[i] = lit("value(int("+f[1]+"))", t)
			case len(f) == 2 && f[0] == "bool":
				resVals[i] = lit("value("+f[1]+")", t)
			default:
				return "the real code returned a value the replay cannot encode (" + m[3] + ")", ""
			}
		}
	}
	for i, v := range resVals {
		if v == nil {
			return fmt.Sprintf("result %d of the real code was not captured", i), ""
		}
	}
	env = env.withResults(resVals, fn)
	g := x.evalBool(env, o.Clause.Expr)
	if len(st.heaps) > 0 {
		return "the clause reads the heap: not decidable on scalar inputs alone", ""
	}
	var sb strings.Builder
	body := "(assert " + g + ")\n"
	for _, it := range st.items {
		if it.Def != "" {
			body = fmt.Sprintf("(define-fun %s () %s %s)\n", it.Def, it.Sort, it.Term) + body
		}
	}
	for _, d := range x.Reg.Closure(body) {
		if d.Text != "" {
			sb.WriteString(d.Text + "\n")
		}
	}
	sb.WriteString(body)
	sb.WriteString("(check-sat)\n")
	script = sb.String()
	r := quickSolve(script, 10)
	switch r {
	case "unsat":
		return "confirmed: the clause is false for the outputs the real code produced on the solver's input", script
	case "sat":
		return "not reproduced: the real code satisfies the clause on the solver's input", script
	}
	return "ground clause undecided (" + r + ")", script
}

func appendReplay(path string, rec *replayRecord) {
	b, err := os.ReadFile(path)
	if err != nil {
		return
	}
	var m map[string]any
	if json.Unmarshal(b, &m) != nil {
		return
	}
	m["replay"] = rec
	nb, _ := json.MarshalIndent(m, "", " ")
	os.WriteFile(path, nb, 0o644)
}

// cmdReplay re-runs a recorded replay: govc replay <file.json>
func cmdReplay(args []string) int {
	if len(args) < 1 {
		fmt.Fprintln(os.Stderr, "usage: govc replay <replay.json>")
		return 2
	}
	b, err := os.ReadFile(args[0])
	if err != nil {
		fmt.Fprintln(os.Stderr, err)
		return 2
	}
	var m struct {
		Property   string        `json:"property"`
		Obligation string        `json:"obligation"`
		Clause     string        `json:"clause"`
		Status     string        `json:"status"`
		Solver     string        `json:"solver_output"`
		Replay     *replayRecord `json:"replay"`
	}
	if err := json.Unmarshal(b, &m); err != nil {
		fmt.Fprintln(os.Stderr, err)
		return 2
	}
	fmt.Printf("property %s\nobligation %s\nclause %s\nstatus %s\n", m.Property, m.Obligation, m.Clause, m.Status)
	if m.Replay == nil || m.Replay.GoTest == "" {
		fmt.Println("no failing input recorded (no-failing-input-found): the obligation passed on the unchanged tree and is not discharged on this one; solver output follows")
		fmt.Println(trunc(m.Solver, 2000))
		return 1
	}
	fmt.Printf("function %s inputs %v\n", m.Replay.Function, m.Replay.Inputs)
	out, ok := runReplayTest(m.Replay.GoTest, m.Replay.Dir)
	for _, l := range strings.Split(out, "\n") {
		if strings.HasPrefix(l, "REPLAY-") {
			fmt.Println(l)
		}
	}
	if !ok {
		fmt.Println("replay test could not be run")
		return 2
	}
	pick := func(o string) string {
		var ls []string
		for _, l := range strings.Split(o, "\n") {
			if strings.HasPrefix(l, "REPLAY-") {
				ls = append(ls, l)
			}
		}
		return strings.Join(ls, "\n")
	}
	if pick(out) != pick(m.Replay.Output) {
		fmt.Println("the code in the working tree now answers differently on this input than when the violation was recorded:")
		fmt.Println("recorded:\n" + pick(m.Replay.Output))
		fmt.Println("violation not reproduced on the current tree (re-run the check to decide the obligation)")
		return 0
	}
	fmt.Println("recorded verdict:", m.Replay.Verdict)
	if strings.Contains(out, "REPLAY-PANIC:") || strings.Contains(out, "REPLAY-FACT false") || strings.HasPrefix(m.Replay.Verdict, "confirmed") {
		fmt.Println("VIOLATION reproduced on the real code")
		return 1
	}
	return 0
}
