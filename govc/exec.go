package main

// Symbolic executor over go/ssa (naive form): generates obligations.

import (
	"strconv"
	"regexp"
	"time"
	"os"
	"fmt"
	"go/constant"
	"go/token"
	"go/types"
	"sort"
	"strings"

	"golang.org/x/tools/go/ssa"
)

type Obligation struct {
	Name   string
	Func   string
	Kind   string // pre post inv bounds assert lemma const frame vacuity
	Label  string
	Props  []string
	Goal   string
	Items  []Item
	Where  string
	Src    string // contract clause source or description
	Path   []string
	Folded bool // decided by constant folding (goal == true)
	ExpectSat bool // vacuity canaries: must be satisfiable
	Mode   Mode
	Batch  int // obligations of one site on one path share a batch id (0 = none)
	// for replay
	Fn     *ssa.Function
	Inputs []replayInput
	Clause *Clause
}

type Exec struct {
	P     *Program
	C     *Contracts
	Reg   *Registry
	Sorts *Sorts
	Mode  Mode
	Eff   *Effects

	fn    *ssa.Function
	fc    *FuncContract
	fname string
	obls  []*Obligation
	cellCtr int
	paths int
	maxPaths int
	deadline time.Time // generation budget of the function being verified
	limits []string // tool limits / abstractions taken
	abstr map[string]bool
	entry *State // entry snapshot for old()
	entryParams map[string]*Value
	boundsCtr map[string]int
	returned int
	inlineDepthMax int
	typeIDs map[string]int
	fnIDs map[*ssa.Function]int
	litCtr int
	lits map[string]string
	curPkg *types.Package
	useLemmas []string
	replayInputs []replayInput
	rangeInv map[*Loop]*Clause
	refHeaps map[string]bool
	nextBefore string
	elemRange map[string]string
	batch int
	lazyHeaps map[string]string
	lazyNext map[string]string
	havocCtr int
	tAsm, tSolve time.Duration
	nFeas int
	spec int // >0 while executing a block speculatively (only pure operations allowed)
	Prop string
	selfVal *Value
	batchCtr int
	fired    map[*Clause]bool // call-site assertions that produced an obligation in this function
	forks int
	pruned int
}

type toolLimit struct{ msg string }

func (x *Exec) limit(f string, a ...any) {
	panic(toolLimit{fmt.Sprintf(f, a...)})
}

func (x *Exec) abstraction(f string, a ...any) {
	m := fmt.Sprintf(f, a...)
	if x.abstr == nil {
		x.abstr = map[string]bool{}
	}
	if !x.abstr[m] {
		x.abstr[m] = true
		x.limits = append(x.limits, m)
	}
}

func NewExec(p *Program, c *Contracts, mode Mode) *Exec {
	reg := NewRegistry()
	x := &Exec{P: p, C: c, Reg: reg, Sorts: NewSorts(reg, mode), Mode: mode, maxPaths: 6000, inlineDepthMax: 4,
		typeIDs: map[string]int{}, fnIDs: map[*ssa.Function]int{}, lits: map[string]string{}, boundsCtr: map[string]int{}}
	return x
}

// ---------------------------------------------------------------------------
// naming / definitions

func (x *Exec) def(st *State, prefix, sort, term string) string {
	// small terms are not worth naming
	if len(term) < 40 {
		return term
	}
	n := x.Reg.Fresh(prefix)
	st.items = append(st.items, Item{Def: n, Sort: sort, Term: term})
	return n
}

func (x *Exec) fresh(prefix string, t types.Type) *Value {
	s := x.Sorts.SortOf(t)
	n := x.Reg.FreshConst(prefix, s)
	return &Value{T: n, Typ: t}
}

func (x *Exec) freshSort(prefix, sort string) string {
	return x.Reg.FreshConst(prefix, sort)
}

func (x *Exec) typeID(t types.Type) int {
	k := t.String()
	if id, ok := x.typeIDs[k]; ok {
		return id
	}
	id := len(x.typeIDs) + 1
	x.typeIDs[k] = id
	return id
}

func (x *Exec) fnID(f *ssa.Function) int {
	if id, ok := x.fnIDs[f]; ok {
		return id
	}
	id := 1000 + len(x.fnIDs)
	x.fnIDs[f] = id
	return id
}

// term returns the SMT term of a value (materialising constants).
func (x *Exec) term(v *Value) string {
	if v.T != "" {
		return v.T
	}
	if v.K != nil {
		return x.constTerm(v.K, v.Typ)
	}
	if v.Ptr != nil {
		if v.Ptr.Kind == PObj && len(v.Ptr.Path) == 0 {
			return v.Ptr.Ref
		}
		x.limit("pointer into an aggregate or to a local used as a first-class value (%s)", v.Typ)
	}
	if v.Fn != nil {
		return fmt.Sprint(x.fnID(v.Fn.Fn))
	}
	x.limit("value without SMT term (type %v)", v.Typ)
	return ""
}

func (x *Exec) constTerm(k constant.Value, t types.Type) string {
	switch k.Kind() {
	case constant.Bool:
		if constant.BoolVal(k) {
			return "true"
		}
		return "false"
	case constant.Int:
		if t != nil && isFloatType(t) {
			f, _ := constant.Float64Val(k)
			return x.floatLit(f)
		}
		if t != nil && isBVType(t, x.Mode) {
			w, _, _ := intInfo(t)
			u, _ := constant.Uint64Val(k)
			if constant.Sign(k) < 0 {
				i, _ := constant.Int64Val(k)
				u = uint64(i)
			}
			return bvLit(u, w)
		}
		if i, ok := constant.Int64Val(k); ok {
			return intLit(i)
		}
		s := k.ExactString()
		if strings.HasPrefix(s, "-") {
			return "(- " + s[1:] + ")"
		}
		return s
	case constant.Float:
		if t != nil && isIntType(t) {
			if i, ok := constant.Int64Val(constant.ToInt(k)); ok {
				return intLit(i)
			}
		}
		f, _ := constant.Float64Val(k)
		return x.floatLit(f)
	case constant.String:
		return x.strLit(constant.StringVal(k))
	}
	x.limit("unsupported constant %v", k)
	return ""
}

func (x *Exec) floatLit(f float64) string {
	bits := mathFloat64bits(f)
	return fmt.Sprintf("(fconst %d)", bits)
}

func (x *Exec) strLit(s string) string {
	if s == "" {
		return "sempty"
	}
	if n, ok := x.lits[s]; ok {
		return n
	}
	x.litCtr++
	n := fmt.Sprintf("lit!%d_%s", x.litCtr, sanitize(trunc(s, 12)))
	x.lits[s] = n
	x.Reg.Add(n, fmt.Sprintf("(declare-const %s Str)", n), "Str", "slen", "sat")
	var ax []string
	ax = append(ax, fmt.Sprintf("(= (slen %s) %d)", n, len(s)))
	if len(s) <= 80 {
		for i := 0; i < len(s); i++ {
			ax = append(ax, fmt.Sprintf("(= (sat %s %d) %d)", n, i, s[i]))
		}
	}
	x.Reg.AddAxiom(n, n+"_def", "(assert (and "+strings.Join(ax, " ")+"))")
	// literals with identical content are the same name; different literals of the
	// same length differ at some byte, which the sat axioms expose.
	return n
}

func trunc(s string, n int) string {
	if len(s) > n {
		return s[:n]
	}
	return s
}

// ---------------------------------------------------------------------------
// obligations

func (x *Exec) oblige(st *State, kind, label string, props []string, goal, where, src string) {
	name := x.fname + "/" + kind
	if label != "" {
		name += "/" + label
	}
	o := &Obligation{Name: name, Func: x.fname, Kind: kind, Label: label, Props: props, Goal: goal, Where: where, Src: src, Mode: x.Mode, Batch: x.batch}
	o.Fn, o.Inputs = x.fn, x.replayInputs
	if goal == "true" {
		o.Folded = true
	} else {
		o.Items = st.items[:len(st.items):len(st.items)]
		o.Path = st.trace[:len(st.trace):len(st.trace)]
	}
	x.obls = append(x.obls, o)
	// After a check the fact may be assumed on the rest of the path, but only
	// where that is semantically justified: a panic site that did not panic, or a
	// precondition / invariant that this very run checks (never a goal that is
	// filtered out of the current property, and never goals at the return).
	// Quantified facts are not added: they only make later queries harder.
	justified := kind == "safe" || ((strings.HasPrefix(kind, "pre@") || strings.HasPrefix(kind, "assert@") || strings.HasPrefix(kind, "loop")) && hasProp(props, x.Prop))
	if justified && !strings.Contains(goal, "(forall ") && !strings.Contains(goal, "(exists ") {
		st.assume(goal)
	}
}

// safety obligation (panic site). Labelled by kind + source line ordinal.
func (x *Exec) safety(st *State, what string, goal string, ins ssa.Instruction) {
	if goal == "true" {
		// still count it as a discharged site
	}
	where := "?"
	if ins != nil {
		where = x.P.Pos(instrPos(ins))
	}
	fr := st.top()
	label := what
	// label by enclosing (possibly inlined) function and a per-function ordinal of the instruction
	owner := x.P.FuncName(fr.Fn)
	if a := x.P.ClosureAlias(fr.Fn); a != "" {
		owner = a
	}
	ord := x.instrOrdinal(fr.Fn, ins, what)
	label = fmt.Sprintf("%s@%s#%d", what, owner, ord)
	props := x.safetyProps()
	if x.fc != nil && x.fc.MayPanic {
		return
	}
	x.oblige(st, "safe", label, props, goal, where, what)
}

func (x *Exec) safetyProps() []string {
	ps := []string{"C06"}
	if x.fc != nil {
		for _, p := range x.fc.Props {
			if !contains(ps, p) {
				ps = append(ps, p)
			}
		}
	}
	return ps
}

var ordCache = map[*ssa.Function]map[ssa.Instruction]int{}

// instrOrdinal: ordinal of ins among instructions of the same kind-class in fn (stable under
// edits elsewhere in the file; changes if panic sites are added before it in the same function).
func (x *Exec) instrOrdinal(fn *ssa.Function, ins ssa.Instruction, what string) int {
	if ins == nil {
		return 0
	}
	m := ordCache[fn]
	if m == nil {
		m = map[ssa.Instruction]int{}
		counts := map[string]int{}
		for _, b := range fn.Blocks {
			for _, i := range b.Instrs {
				k := fmt.Sprintf("%T", i)
				counts[k]++
				m[i] = counts[k]
			}
		}
		ordCache[fn] = m
	}
	return m[ins]
}

// ---------------------------------------------------------------------------
// heaps

func (x *Exec) heap(st *State, name, sort string) string {
	if t, ok := st.heaps[name]; ok {
		return t
	}
	st.hsort[name] = sort
	tok := st.heaps["!havoc:"+name]
	if tok == "" {
		tok = st.heaps["!havoc:*"]
	}
	if tok != "" {
		// havocked before its first use on this path: one constant per havoc event,
		// shared by the live state and its snapshots
		key := name + "@" + tok
		if x.lazyHeaps == nil {
			x.lazyHeaps = map[string]string{}
		}
		c, ok := x.lazyHeaps[key]
		if !ok {
			c = x.freshSort(name, sort)
			x.lazyHeaps[key] = c
			if ax := x.birthAxiom(name, c, sort, x.lazyNext[tok]); ax != "" {
				x.Reg.AddAxiom(c, c+"_born", "(assert "+ax+")")
			}
		}
		st.heaps[name] = c
		return c
	}
	x.Reg.Add(name, fmt.Sprintf("(declare-const %s %s)", name, sort))
	if ax := x.birthAxiom(name, name, sort, x.alloc0()); ax != "" {
		x.Reg.AddAxiom(name, name+"_born", "(assert "+ax+")")
	}
	st.heaps[name] = name
	return name
}

// birthAxiom: every reference stored in heap version `term` (of heap `base`)
// is below the allocation counter value `bound` at the time the version arose.
func (x *Exec) birthAxiom(base, term, sort, bound string) string {
	switch {
	case sort == "(Array Int Slice)":
		return fmt.Sprintf("(forall ((r Int)) (! (and (< (s_arr (select %s r)) %s) (= 0 (s_off (select %s r))) (<= 0 (s_len (select %s r))) (<= (s_len (select %s r)) (s_cap (select %s r))) (<= (s_cap (select %s r)) 9223372036854775807)) :pattern ((select %s r))))", term, bound, term, term, term, term, term, term)
	case sort == "(Array Int (Array Int Int))" && x.elemRange[base] != "":
		return fmt.Sprintf("(forall ((a Int) (i Int)) (! (and (<= 0 (select (select %s a) i)) (<= (select (select %s a) i) %s)) :pattern ((select (select %s a) i))))", term, term, x.elemRange[base], term)
	case sort == "(Array Int Int)" && x.refHeaps[base]:
		return fmt.Sprintf("(forall ((r Int)) (! (< (select %s r) %s) :pattern ((select %s r))))", term, bound, term)
	}
	return ""
}

func (x *Exec) setHeap(st *State, name, sort, term string) {
	x.heap(st, name, sort)
	st.heaps[name] = x.def(st, name, sort, term)
}

func (x *Exec) havocHeap(st *State, name string) {
	sort, ok := st.hsort[name]
	if !ok {
		return
	}
	st.heaps[name] = x.freshSort(name, sort)
	if ax := x.birthAxiom(name, st.heaps[name], sort, x.nextTerm(st)); ax != "" {
		st.assume(ax)
	}
}

func structOf(t types.Type) (*types.Struct, bool) {
	s, ok := t.Underlying().(*types.Struct)
	return s, ok
}

func (x *Exec) fieldHeapName(obj types.Type, field int) (string, string) {
	st, _ := structOf(obj)
	sn := x.Sorts.structName(obj)
	fsort := x.Sorts.SortOf(st.Field(field).Type())
	switch st.Field(field).Type().Underlying().(type) {
	case *types.Pointer, *types.Map, *types.Chan:
		if x.refHeaps == nil {
			x.refHeaps = map[string]bool{}
		}
		x.refHeaps["H_"+strings.TrimPrefix(sn, "S_")+"_"+sanitize(st.Field(field).Name())] = true
	}
	return "H_" + strings.TrimPrefix(sn, "S_") + "_" + sanitize(st.Field(field).Name()), fmt.Sprintf("(Array Int %s)", fsort)
}

func (x *Exec) elemHeapName(elem types.Type) (string, string) {
	es := x.Sorts.SortOf(elem)
	name := "E_" + sanitize(elemKey(elem))
	if w, signed, ok := intInfo(elem); ok && !signed && w < 64 && !isBVType(elem, x.Mode) {
		if x.elemRange == nil {
			x.elemRange = map[string]string{}
		}
		x.elemRange[name] = intLit((1 << uint(w)) - 1)
	}
	return name, fmt.Sprintf("(Array Int (Array Int %s))", es)
}

func elemKey(t types.Type) string {
	s := types.TypeString(t, func(p *types.Package) string { return "" })
	if s == "uint8" {
		s = "byte"
	}
	if s == "interface{}" || s == "any" {
		s = "value"
	}
	return s
}

func (x *Exec) mapHeapNames(mt *types.Map) (dom, val, dsort, vsort string) {
	k := sanitize(elemKey(mt.Key())) + "_" + sanitize(elemKey(mt.Elem()))
	ks := x.Sorts.SortOf(mt.Key())
	vs := x.Sorts.SortOf(mt.Elem())
	return "MD_" + k, "MV_" + k, fmt.Sprintf("(Array Int (Array %s Bool))", ks), fmt.Sprintf("(Array Int (Array %s %s))", ks, vs)
}

func (x *Exec) globalHeapName(g *ssa.Global) (string, string) {
	return "G_" + sanitize(globalName(g)), x.Sorts.SortOf(g.Type().(*types.Pointer).Elem())
}

// ---------------------------------------------------------------------------
// pointers: load / store

func (x *Exec) ptrOf(v *Value) *Pointer {
	if v.Ptr != nil {
		return v.Ptr
	}
	pt, ok := v.Typ.Underlying().(*types.Pointer)
	if !ok {
		x.limit("ptrOf: not a pointer type %s", v.Typ)
	}
	el := pt.Elem()
	if _, ok := structOf(el); ok {
		return &Pointer{Kind: PObj, Ref: x.term(v), Obj: el, Typ: el}
	}
	if at, ok := el.Underlying().(*types.Array); ok {
		// pointer to array object: elements live in the element heap
		_ = at
		return &Pointer{Kind: PObj, Ref: x.term(v), Obj: el, Typ: el}
	}
	// pointer to scalar heap object: modelled as a one-element array
	return &Pointer{Kind: PElem, Ref: x.term(v), Idx: "0", Typ: el}
}

// rootRead returns the term for the content of the root location.
func (x *Exec) rootRead(st *State, p *Pointer) (string, types.Type) {
	switch p.Kind {
	case PCell:
		v, ok := st.cells[p.Cell]
		if !ok {
			x.limit("read of unset cell %s", p.Cell.Name)
		}
		if v.T == "" && v.K == nil {
			x.limit("cell %s holds a Go-level value, cannot step into it", p.Cell.Name)
		}
		return x.term(v), p.Cell.Typ
	case PField:
		hn, hs := x.fieldHeapName(p.Obj, p.Field)
		stt, _ := structOf(p.Obj)
		return app("select", x.heap(st, hn, hs), p.Ref), stt.Field(p.Field).Type()
	case PElem:
		var el types.Type
		if len(p.Path) > 0 {
			el = p.Path[0].Parent
		} else {
			el = p.Typ
		}
		hn, hs := x.elemHeapName(el)
		return app("select", app("select", x.heap(st, hn, hs), p.Ref), p.Idx), el
	case PGlobal:
		x.limit("rootRead global")
	case PObj:
		// whole struct object as a value: build from fields
		stt, ok := structOf(p.Obj)
		if !ok {
			x.limit("rootRead of non-struct object %s", p.Obj)
		}
		sn := x.Sorts.structSort(p.Obj, stt)
		if stt.NumFields() == 0 {
			return "mk_" + sn, p.Obj
		}
		var fs []string
		for i := 0; i < stt.NumFields(); i++ {
			hn, hs := x.fieldHeapName(p.Obj, i)
			fs = append(fs, app("select", x.heap(st, hn, hs), p.Ref))
		}
		return app("mk_"+sn, fs...), p.Obj
	}
	x.limit("rootRead: bad pointer kind")
	return "", nil
}

func (x *Exec) rootWrite(st *State, p *Pointer, term string, v *Value) {
	switch p.Kind {
	case PCell:
		if len(p.Path) == 0 && v != nil {
			st.cells[p.Cell] = v
			return
		}
		st.cells[p.Cell] = &Value{T: x.def(st, p.Cell.Name, x.Sorts.SortOf(p.Cell.Typ), term), Typ: p.Cell.Typ}
	case PField:
		hn, hs := x.fieldHeapName(p.Obj, p.Field)
		h := x.heap(st, hn, hs)
		if hs == "(Array Int Slice)" && len(p.Path) == 0 {
			_, off, _, _ := x.sliceParts(term)
			if off != "0" {
				x.oblige(st, "model", "field_slice_offset0@"+hn, x.safetyProps(), eq(off, "0"), "?", "modelling discipline: a slice stored in a struct field has offset 0")
			}
		}
		x.setHeap(st, hn, hs, app("store", h, p.Ref, term))
	case PElem:
		var el types.Type
		if len(p.Path) > 0 {
			el = p.Path[0].Parent
		} else {
			el = p.Typ
		}
		hn, hs := x.elemHeapName(el)
		h := x.heap(st, hn, hs)
		x.setHeap(st, hn, hs, app("store", h, p.Ref, app("store", app("select", h, p.Ref), p.Idx, term)))
	case PObj:
		stt, ok := structOf(p.Obj)
		if !ok {
			x.limit("rootWrite of non-struct object")
		}
		sn := x.Sorts.structSort(p.Obj, stt)
		for i := 0; i < stt.NumFields(); i++ {
			hn, hs := x.fieldHeapName(p.Obj, i)
			h := x.heap(st, hn, hs)
			x.setHeap(st, hn, hs, app("store", h, p.Ref, app(x.Sorts.fieldSel(sn, stt, i), term)))
		}
	default:
		x.limit("rootWrite: bad pointer kind")
	}
}

func (x *Exec) project(term string, s Step) string {
	if s.IsIdx {
		return app("select", term, s.Idx)
	}
	stt, _ := structOf(s.Parent)
	sn := x.Sorts.structSort(s.Parent, stt)
	return app(x.Sorts.fieldSel(sn, stt, s.Field), term)
}

func (x *Exec) update(term string, steps []Step, nv string) string {
	if len(steps) == 0 {
		return nv
	}
	s := steps[0]
	inner := x.update(x.project(term, s), steps[1:], nv)
	if s.IsIdx {
		return app("store", term, s.Idx, inner)
	}
	stt, _ := structOf(s.Parent)
	sn := x.Sorts.structSort(s.Parent, stt)
	var fs []string
	for i := 0; i < stt.NumFields(); i++ {
		if i == s.Field {
			fs = append(fs, inner)
		} else {
			fs = append(fs, app(x.Sorts.fieldSel(sn, stt, i), term))
		}
	}
	return app("mk_"+sn, fs...)
}

func (x *Exec) load(st *State, p *Pointer) *Value {
	if p.Kind == PGlobal {
		v, ok := st.extra["glob:"+p.Glob]
		_ = v
		_ = ok
	}
	if p.Kind == PCell && len(p.Path) == 0 {
		v, ok := st.cells[p.Cell]
		if !ok {
			x.limit("read of unset cell %s", p.Cell.Name)
		}
		return v
	}
	if p.Kind == PObj && len(p.Path) == 0 {
		if at, ok := p.Obj.Underlying().(*types.Array); ok {
			hn, hs := x.elemHeapName(at.Elem())
			return &Value{T: app("select", x.heap(st, hn, hs), p.Ref), Typ: p.Obj}
		}
	}
	t, _ := x.rootRead(st, p)
	for _, s := range p.Path {
		t = x.project(t, s)
	}
	v := &Value{T: t, Typ: p.Typ}
	if p.Kind == PField && len(p.Path) == 0 {
		v.T = x.normFieldSlice(v.T, p.Typ)
		if _, isSig := p.Typ.Underlying().(*types.Signature); isSig {
			if stt, ok := structOf(p.Obj); ok {
				v.Slot = x.slotName(p.Obj, stt.Field(p.Field).Name())
			}
		}
	}
	x.assumeTypeInv(st, v)
	x.assumeAllocated(st, v)
	return v
}

// normFieldSlice: slices stored in struct fields always have offset 0 (a modelling
// discipline that is checked at every store of a slice into a field), so reads
// can use the literal 0, which keeps index terms free of symbolic offsets.
func (x *Exec) normFieldSlice(t string, typ types.Type) string {
	if _, ok := typ.Underlying().(*types.Slice); !ok {
		return t
	}
	if strings.HasPrefix(t, "(mk_slice ") {
		return t
	}
	return app("mk_slice", app("s_arr", t), "0", app("s_len", t), app("s_cap", t))
}

func (x *Exec) store(st *State, p *Pointer, v *Value) {
	if p.Kind == PCell && len(p.Path) == 0 {
		st.cells[p.Cell] = v
		return
	}
	if p.Kind == PObj && len(p.Path) == 0 {
		if at, ok := p.Obj.Underlying().(*types.Array); ok {
			hn, hs := x.elemHeapName(at.Elem())
			x.setHeap(st, hn, hs, app("store", x.heap(st, hn, hs), p.Ref, x.term(v)))
			return
		}
	}
	nv := x.term(v)
	if len(p.Path) == 0 {
		x.rootWrite(st, p, nv, v)
		return
	}
	root, _ := x.rootRead(st, p)
	x.rootWrite(st, p, x.update(root, p.Path, nv), nil)
}

// assumeTypeInv adds range / well-formedness facts for freshly read values.
func (x *Exec) assumeTypeInv(st *State, v *Value) {
	if v.T == "" || v.Typ == nil {
		return
	}
	if f := x.typeInv(v.T, v.Typ); f != "true" {
		st.assume(f)
	}
}

func (x *Exec) typeInv(t string, typ types.Type) string {
	switch u := typ.Underlying().(type) {
	case *types.Basic:
		if isIntType(typ) && !isBVType(typ, x.Mode) {
			w, signed, _ := intInfo(typ)
			if u.Kind() == types.Int || u.Kind() == types.Int64 {
				return "true" // mathematical; see assumptions
			}
			if signed {
				return and(app("<=", intLit(-(1<<(w-1))), t), app("<=", t, intLit((1<<(w-1))-1)))
			}
			if w == 64 {
				return and(app("<=", "0", t), app("<=", t, "18446744073709551615"))
			}
			return and(app("<=", "0", t), app("<=", t, intLit((1<<w)-1)))
		}
	case *types.Slice:
		return and(app("<=", "0", app("s_off", t)), app("<=", "0", app("s_len", t)), app("<=", app("s_len", t), app("s_cap", t)), app("<=", app("s_cap", t), "9223372036854775807"))
	}
	return "true"
}

// ---------------------------------------------------------------------------
// entry point: verify one function against its contract

func (x *Exec) VerifyFunc(fn *ssa.Function, fc *FuncContract, name string) (obls []*Obligation, err error) {
	x.fn, x.fc, x.fname = fn, fc, name
	x.obls = nil
	x.fired = map[*Clause]bool{}
	x.forks, x.pruned = 0, 0
	x.paths = 0
	x.deadline = time.Now().Add(genBudget())
	x.returned = 0
	x.curPkg = x.P.rootPkg(fn)
	defer func() {
		if r := recover(); r != nil {
			if tl, ok := r.(toolLimit); ok {
				err = fmt.Errorf("tool limit in %s: %s", name, tl.msg)
				obls = x.obls
				return
			}
			panic(r)
		}
	}()
	if fn.Blocks == nil {
		return nil, fmt.Errorf("%s has no body", name)
	}
	st := &State{cells: map[*Cell]*Value{}, heaps: map[string]string{}, hsort: map[string]string{}, ghost: map[string]*Value{}, callNo: map[string]int{}, extra: map[string]*Value{}}
	x.initGhost(st)
	fr := &Frame{Fn: fn, Regs: map[ssa.Value]*Value{}, Allocs: map[*ssa.Alloc]*Pointer{}, Params: map[string]*Value{}}
	st.frames = []*Frame{fr}
	// parameters
	for _, p := range fn.Params {
		v := x.fresh(p.Name(), p.Type())
		x.assumeTypeInv(st, v)
		x.assumeAllocated(st, v)
		if _, isSl := p.Type().Underlying().(*types.Slice); isSl {
			// A slice parameter is re-based to offset 0: the offset is unobservable unless
			// another accessible slice overlaps the same array at a different offset
			// (modelling assumption: slice parameters do not partially overlap).
			v = &Value{T: app("mk_slice", app("s_arr", v.T), "0", app("s_len", v.T), app("s_cap", v.T)), Typ: v.Typ}
		}
		fr.Regs[p] = v
		fr.Params[p.Name()] = v
		if v.T != "" {
			x.replayInputs = append(x.replayInputs, replayInput{Name: p.Name(), Term: v.T, Typ: p.Type()})
		}
		if _, ok := p.Type().Underlying().(*types.Pointer); ok {
			// implicit precondition: pointer parameters are non-nil
			st.assume(app("not", eq(v.T, "0")))
		}
	}
	// free variables of closures verified stand-alone: cells with arbitrary content
	for _, fv := range fn.FreeVars {
		el := fv.Type().(*types.Pointer).Elem()
		c := x.newCell(fv.Name(), el)
		cv := x.freshOrObj(st, fv.Name(), el)
		st.cells[c] = cv
		x.assumeTypeInv(st, cv)
		x.assumeAllocated(st, cv)
		fr.Regs[fv] = &Value{Typ: fv.Type(), Ptr: &Pointer{Kind: PCell, Cell: c, Typ: el}}
		fr.Params[fv.Name()] = cv
		if _, ok := el.Underlying().(*types.Pointer); ok && capturedParam(fn, fv) {
			// a captured pointer parameter of the enclosing function (non-nil like every pointer parameter)
			st.assume(app("not", eq(x.term(cv), "0")))
		}
	}
	if fc != nil && fc.Slot {
		// slot conformance: formal names of the slot contract alias the function's parameters
		for i, sp := range fc.Params {
			if i < len(fn.Params) {
				fr.Params[sp.Name] = fr.Regs[fn.Params[i]]
			}
		}
		fr.Params["self"] = &Value{T: fmt.Sprint(x.fnID(fn)), Sort: "Int"}
	}
	x.entryParams = fr.Params
	if fn.Name() == "init" || strings.HasPrefix(fn.Name(), "init#") {
		// package-level variables written only by this initializer start zeroed
		if pk := fn.Pkg; pk != nil {
			for _, m := range pk.Members {
				g, ok := m.(*ssa.Global)
				if !ok {
					continue
				}
				cls := "G_" + sanitize(globalName(g))
				if x.Eff != nil && x.Eff.OnlyWriter(cls, fn) {
					el := g.Type().(*types.Pointer).Elem()
					x.setHeap(st, cls, x.Sorts.SortOf(el), x.Sorts.Zero(el))
				}
			}
		}
	}
	x.assumeGlobalInvs(st)
	x.entry = st.snapshot()
	// requires + invariants
	env := x.envFor(st, x.entry, fr)
	if fc != nil {
		if len(fc.GhostInit) > 0 {
			x.applyGhostList(st, env, fc.GhostInit)
			x.entry = st.snapshot()
			env = x.envFor(st, x.entry, fr)
		}
		for _, lm := range fc.Uses {
			x.assumeLemma(st, lm)
		}
		for _, inv := range x.invariantsFor(fn, fc) {
			if inv.inv.History {
				continue
			}
			st.assume(x.evalBool(env.with(inv.Binder, inv.val), inv.inv.Expr))
		}
		for _, r := range fc.Requires {
			st.assume(x.evalBool(env, r.Expr))
		}
	}
	fr.Block = fn.Blocks[0]
	x.run(st)
	if x.returned == 0 && !x.noReturn(fn) {
		// every path ended in a cut (loop back edge) or infeasible
	}
	// A call-site assertion whose call site was never reached generates no obligation at all:
	// the contract no longer attaches to the code. That is reported, not passed over in silence.
	if fc != nil {
		for _, cl := range fc.Ensures {
			if snapshotRefs(fc, cl) > 0 && !x.fired[cl] {
				o := &Obligation{Name: name + "/anchor/" + cl.Label, Func: name, Kind: "effects", Label: cl.Label, Props: cl.Props,
					Goal: "false", Where: cl.Where, Mode: x.Mode,
					Src: "no returning path of " + name + " takes the snapshots that postcondition " + cl.Label + " mentions: `" + cl.Src + "` cannot be checked"}
				x.obls = append(x.obls, o)
			}
		}
		for _, a := range fc.Asserts {
			if a.At == "" || a.At == "return" || x.fired[a] {
				continue
			}
			o := &Obligation{Name: name + "/anchor/" + a.Label, Func: name, Kind: "effects", Label: a.Label, Props: a.Props,
				Goal: "false", Where: a.Where, Mode: x.Mode,
				Src: "the call site `" + a.At + "` of assertion " + a.Label + " is not reached in " + name + ": the assertion `" + a.Src + "` cannot be checked"}
			x.obls = append(x.obls, o)
		}
	}
	return x.obls, nil
}

func (x *Exec) noReturn(fn *ssa.Function) bool { return false }

func (x *Exec) freshOrObj(st *State, name string, t types.Type) *Value {
	return x.fresh(name, t)
}

func (x *Exec) newCell(name string, t types.Type) *Cell {
	x.cellCtr++
	return &Cell{Name: name, Typ: t, id: x.cellCtr}
}

type boundInv struct {
	inv *Invariant
	Binder string
	val *Value
}

// invariantsFor lists the object invariants that apply to fn's parameters.
func (x *Exec) invariantsFor(fn *ssa.Function, fc *FuncContract) []boundInv {
	var out []boundInv
	if fc == nil {
		return nil
	}
	for _, inv := range x.C.Invs {
		if fc.NoInv[inv.Name] || fc.NoInv["*"] {
			continue
		}
		for _, p := range fn.Params {
			if x.typeMatches(p.Type(), inv.Type) {
				out = append(out, boundInv{inv: inv, Binder: inv.Binder})
				out[len(out)-1].val = nil // bound at use
				break
			}
		}
	}
	// bind values lazily by callers (they know the param values); here for the
	// function's own verification use entry params.
	for i := range out {
		for _, p := range fn.Params {
			if x.typeMatches(p.Type(), out[i].inv.Type) {
				out[i].val = x.entryParams[p.Name()]
				break
			}
		}
	}
	return out
}

func (x *Exec) typeMatches(t types.Type, name string) bool {
	s := types.TypeString(t, func(p *types.Package) string {
		if p.Path() == bclPath {
			return ""
		}
		return p.Name()
	})
	return s == name
}

// ---------------------------------------------------------------------------
// main loop

func (x *Exec) run(st *State) {
	for {
		if st.dead {
			return
		}
		fr := st.top()
		if fr.Idx >= len(fr.Block.Instrs) {
			x.limit("fell off block %d of %s", fr.Block.Index, fr.Fn.Name())
		}
		ins := fr.Block.Instrs[fr.Idx]
		fr.Idx++
		switch ins := ins.(type) {
		case *ssa.DebugRef:
			// no-op
		case *ssa.If:
			c := x.get(st, ins.Cond)
			if b, ok := c.isConstBool(); ok {
				if b {
					if !x.gotoBlock(st, fr.Block.Succs[0]) {
						return
					}
				} else {
					if !x.gotoBlock(st, fr.Block.Succs[1]) {
						return
					}
				}
				continue
			}
			// collapse short-circuit chains (a && b, a || b) whose right operands are pure
			ct := x.term(c)
			for {
				nct, ok := x.tryCollapse(st, fr, ct)
				if !ok {
					break
				}
				ct = nct
			}
			if v, ok := st.known(ct); ok {
				if v {
					ct = "true"
				} else {
					ct = "false"
				}
			}
			if ct == "true" || ct == "false" {
				succ := 0
				if ct == "false" {
					succ = 1
				}
				if !x.gotoBlock(st, fr.Block.Succs[succ]) {
					return
				}
				continue
			}
			x.paths++
			if x.paths > x.maxPaths {
				x.limit("path explosion (> %d paths)", x.maxPaths)
			}
			if x.paths%8 == 0 && time.Now().After(x.deadline) {
				x.limit("generating the obligations of %s takes longer than %v (a loop without an invariant, or too many paths)", x.fname, genBudget())
			}
			st2 := st.clone()
			st.assume(ct)
			st.note("%s b%d(%s): %s", x.P.FuncName(fr.Fn), fr.Block.Index, fr.Block.Comment, "then")
			st2.assume(not(ct))
			st2.note("%s b%d(%s): %s", x.P.FuncName(fr.Fn), fr.Block.Index, fr.Block.Comment, "else")
			b0, b1 := fr.Block.Succs[0], fr.Block.Succs[1]
			x.forks++
			if os.Getenv("GOVC_DEBUG") == "2" {
				fmt.Fprintf(os.Stderr, "FORK %s b%d %s\n", x.P.FuncName(fr.Fn), fr.Block.Index, x.P.Pos(instrPos(ins)))
			}
			if os.Getenv("GOVC_DEBUG") != "" && x.forks%100 == 0 {
				fmt.Fprintf(os.Stderr, "[%s] forks=%d pruned=%d obls=%d depth=%d at %s b%d feas=%d asm=%v solve=%v items=%d\n", x.fname, x.forks, x.pruned, len(x.obls), len(st.frames), x.P.FuncName(fr.Fn), fr.Block.Index, x.nFeas, x.tAsm, x.tSolve, len(st.items))
			}
			prune := x.forks > 24 && x.forks%1 == 0 // only functions with many branches pay for feasibility checks
			if !(prune && !x.feasible(st2)) {
				if x.gotoBlock(st2, b1) {
					x.run(st2)
				}
			}
			if prune && !x.feasible(st) {
				return
			}
			if !x.gotoBlock(st, b0) {
				return
			}
		case *ssa.Jump:
			if !x.gotoBlock(st, fr.Block.Succs[0]) {
				return
			}
		case *ssa.Return:
			var res []*Value
			for _, r := range ins.Results {
				res = append(res, x.get(st, r))
			}
			if len(st.frames) == 1 {
				x.atReturn(st, res, ins)
				return
			}
			// return from inlined frame
			callee := st.frames[len(st.frames)-1]
			st.frames = st.frames[:len(st.frames)-1]
			caller := st.top()
			if callee.IsDefer {
				// continue running defers of the caller
				if !x.runDefers(st, caller) {
					continue // pushed another deferred frame
				}
				continue
			}
			if ci, ok := callee.CallInst.(ssa.Value); ok {
				caller.Regs[ci] = x.tuple(res, ci.Type())
			}
		case *ssa.RunDefers:
			if !x.runDefers(st, fr) {
				continue
			}
		case *ssa.Panic:
			x.safety(st, "panic", "false", ins)
			return
		default:
			x.step(st, fr, ins)
		}
	}
}

type specAbort struct{}

// tryCollapse: the current block ends in `if c goto T else F` (or `goto B else T`).
// If T has this block as its only predecessor, consists of pure instructions and
// ends in an If sharing the false (true) successor, T is executed speculatively
// under the guard and the two tests are merged into one condition, so that no
// path is forked for the short-circuit operator.
func (x *Exec) tryCollapse(st *State, fr *Frame, ct string) (string, bool) {
	cur := fr.Block
	if len(cur.Succs) != 2 {
		return "", false
	}
	for _, isAnd := range []bool{true, false} {
		var T, other *ssa.BasicBlock
		if isAnd {
			T, other = cur.Succs[0], cur.Succs[1]
		} else {
			T, other = cur.Succs[1], cur.Succs[0]
		}
		if len(T.Preds) != 1 || T == cur || len(T.Instrs) == 0 {
			continue
		}
		tif, ok := T.Instrs[len(T.Instrs)-1].(*ssa.If)
		if !ok {
			continue
		}
		if isAnd && T.Succs[1] != other {
			continue
		}
		if !isAnd && T.Succs[0] != other {
			continue
		}
		if x.isLoopHeader(fr.Fn, T) {
			continue
		}
		guard := ct
		if !isAnd {
			guard = not(ct)
		}
		// speculative execution on a clone
		st2 := st.clone()
		fr2 := st2.top()
		n0 := len(st2.items)
		st2.assume(guard)
		nGuard := len(st2.items)
		oblN := len(x.obls)
		fr2.Prev, fr2.Block, fr2.Idx = cur, T, 0
		okSpec := true
		func() {
			defer func() {
				if r := recover(); r != nil {
					if _, isAbort := r.(specAbort); isAbort {
						okSpec = false
						return
					}
					panic(r)
				}
			}()
			x.spec++
			defer func() { x.spec-- }()
			for _, ins := range T.Instrs[:len(T.Instrs)-1] {
				switch ins.(type) {
				case *ssa.DebugRef:
					continue
				case *ssa.UnOp, *ssa.BinOp, *ssa.FieldAddr, *ssa.Field, *ssa.IndexAddr, *ssa.Index, *ssa.Extract, *ssa.TypeAssert, *ssa.ChangeType, *ssa.Convert, *ssa.Call, *ssa.Phi, *ssa.Lookup, *ssa.MakeInterface, *ssa.Slice:
				default:
					panic(specAbort{})
				}
				depth := len(st2.frames)
				x.step(st2, fr2, ins)
				if len(st2.frames) != depth || st2.dead {
					panic(specAbort{})
				}
			}
		}()
		if !okSpec {
			x.obls = x.obls[:oblN]
			continue
		}
		c2 := x.get(st2, tif.Cond)
		c2t := x.term(c2)
		// adopt: registers of T, guarded facts, allocation counter
		for k, v := range fr2.Regs {
			if _, have := fr.Regs[k]; !have {
				fr.Regs[k] = v
			}
		}
		_ = n0
		for _, it := range st2.items[nGuard:] {
			if it.Def != "" {
				st.items = append(st.items, it)
			} else {
				st.items = append(st.items, Item{Term: implies(guard, it.Term)})
			}
		}
		if v, ok := st2.heaps["!next"]; ok {
			st.heaps["!next"] = v
		}
		for k, v := range st2.callNo {
			st.callNo[k] = v
		}
		fr.Prev, fr.Block = cur, T
		fr.Idx = len(T.Instrs)
		if isAnd {
			return and(ct, c2t), true
		}
		return or(ct, c2t), true
	}
	return "", false
}

func (x *Exec) isLoopHeader(fn *ssa.Function, b *ssa.BasicBlock) bool {
	for _, l := range x.P.Loops(fn) {
		if l.Header == b {
			return true
		}
	}
	return false
}

// feasible asks the solver whether the path condition is satisfiable; only a
// definite unsat prunes the path.
func (x *Exec) feasible(st *State) bool {
	// quantified hypotheses are left out: unsat of a subset is still unsat
	var items []Item
	for _, it := range st.items {
		if it.Def == "" && (strings.Contains(it.Term, "(forall ") || strings.Contains(it.Term, "(exists ")) {
			continue
		}
		items = append(items, it)
	}
	o := &Obligation{Name: "feasibility", Goal: "false", ExpectSat: true, Items: items}
	t0 := time.Now()
	script := assembleScript(x.Reg, o, false, false, false)
	script = stripQuantifiedDecls(script)
	x.tAsm += time.Since(t0)
	t1 := time.Now()
	sr := quickSolve(script, 1)
	x.tSolve += time.Since(t1)
	x.nFeas++
	if sr == "unsat" {
		x.pruned++
		return false
	}
	return true
}

func (x *Exec) tuple(res []*Value, t types.Type) *Value {
	switch len(res) {
	case 0:
		return &Value{Typ: t}
	case 1:
		return res[0]
	}
	return &Value{Typ: t, Tup: res}
}

// runDefers executes pending defers of fr (LIFO). Returns true when all are
// done (execution continues after the RunDefers instruction); false when an
// inlined deferred frame was pushed (the loop continues inside it).
func (x *Exec) runDefers(st *State, fr *Frame) bool {
	for len(fr.Defers) > 0 {
		d := fr.Defers[len(fr.Defers)-1]
		fr.Defers = append([]*Defer(nil), fr.Defers[:len(fr.Defers)-1]...)
		pushed := x.call(st, fr, d.Call, d.Args, d.Fn, d.Pos, true)
		if pushed {
			return false
		}
	}
	return true
}

// genBudget: wall-clock budget for generating the obligations of one function (GOVC_GEN_BUDGET seconds).
func genBudget() time.Duration {
	if v, err := strconv.Atoi(os.Getenv("GOVC_GEN_BUDGET")); err == nil && v > 0 {
		return time.Duration(v) * time.Second
	}
	return 300 * time.Second
}

// gotoBlock transfers control; returns false if the path ends here (loop cut).
func (x *Exec) gotoBlock(st *State, b *ssa.BasicBlock) bool {
	fr := st.top()
	// leave loops that do not contain b
	for len(fr.Open) > 0 && !fr.Open[len(fr.Open)-1].Blocks[b] {
		// named snapshots taken when the loop is left: `snapshot name: at leave N: expr`
		if x.fc != nil && len(x.fc.Snapshots) > 0 && len(st.frames) == 1 && fr.Fn == x.fn {
			at := fmt.Sprintf("leave %d", fr.Open[len(fr.Open)-1].Ordinal)
			for _, sn := range x.fc.Snapshots {
				if sn.At == at {
					v := x.eval(x.envFor(st, x.entry, fr), sn.Expr)
					ns := map[string]*Value{}
					for k, vv := range st.snaps {
						ns[k] = vv
					}
					ns[sn.Label] = v
					st.snaps = ns
				}
			}
		}
		// an iteration that leaves the loop from its body (break) also satisfies the step clauses

		// copy: the backing array may be shared with a forked state
		fr.Open = append([]*Loop(nil), fr.Open[:len(fr.Open)-1]...)
	}
	// an iteration that leaves the loop through a break reaches the loop's exit block from
	// outside the header: the `breakstep` clauses must hold there as well
	for _, l := range x.P.Loops(fr.Fn) {
		if fr.Block == l.Header || l.Blocks[b] {
			continue
		}
		for _, succ := range l.Header.Succs {
			if succ == b && !l.Blocks[succ] {
				x.checkLoopStepsAt(st, fr, l, true)
			}
		}
	}
	for _, l := range x.P.Loops(fr.Fn) {
		if l.Header != b {
			continue
		}
		open := false
		for _, o := range fr.Open {
			if o == l {
				open = true
			}
		}
		if len(x.loopClauses(fr, l)) == 0 && !x.hasLoopExtras(fr, l) {
			// no invariant: unroll while control flow stays concretely decidable
			key := fmt.Sprintf("!unroll:%s:%d:%d", fr.Fn.Name(), len(st.frames), l.Ordinal)
			n := 0
			fmt.Sscanf(st.heaps[key], "%d", &n)
			n++
			st.heaps[key] = fmt.Sprint(n)
			if n > 24 {
				x.limit("loop %d of %s has no invariant and does not terminate concretely within 24 iterations", l.Ordinal, x.P.FuncName(fr.Fn))
			}
			fr.Prev, fr.Block, fr.Idx = fr.Block, b, 0
			return true
		}
		if os.Getenv("GOVC_DEBUG") == "2" {
			fmt.Fprintf(os.Stderr, "LOOP %s header b%d open=%v nopen=%d from b%d\n", fr.Fn.Name(), b.Index, open, len(fr.Open), fr.Block.Index)
		}
		if open {
			// back edge: invariant preserved
			fr.Prev, fr.Block, fr.Idx = fr.Block, b, 0
			x.checkLoopInv(st, fr, l, "preserved")
			x.checkLoopVariant(st, fr, l)
			x.checkLoopSteps(st, fr, l)
			return false
		}
		fr.Prev, fr.Block, fr.Idx = fr.Block, b, 0
		x.checkLoopInv(st, fr, l, "entry")
		x.havocLoop(st, fr, l)
		x.assumeLoopInv(st, fr, l)
		x.assumeLoopHyps(st, fr, l)
		x.recordLoopVariant(st, fr, l)
		x.recordLoopHead(st, fr, l)
		fr.Open = append(fr.Open, l)
		return true
	}
	fr.Prev, fr.Block, fr.Idx = fr.Block, b, 0
	return true
}

func (x *Exec) loopClauses(fr *Frame, l *Loop) []*Clause {
	fc := x.contractOfFrame(fr)
	if fc == nil {
		return nil
	}
	cls := fc.LoopInv[l.Ordinal]
	if len(cls) == 0 {
		return cls
	}
	// a range-over-slice loop keeps its hidden index at -1 or above (structural in go/ssa: the index
	// starts at -1 and is only incremented); stated as a checked invariant so that turning an index
	// loop into a range loop does not need a new annotation
	if x.rangeInv == nil {
		x.rangeInv = map[*Loop]*Clause{}
	}
	if c, ok := x.rangeInv[l]; ok {
		if c != nil {
			return append(append([]*Clause{}, cls...), c)
		}
		return cls
	}
	x.rangeInv[l] = nil
	for _, b := range []*ssa.BasicBlock{l.Header} {
		for _, ins := range b.Instrs {
			if st, ok := ins.(*ssa.Store); ok {
				if al, ok := st.Addr.(*ssa.Alloc); ok && al.Comment == "rangeindex" {
					if e, err := ParseCExpr("0 - 1 <= rangeindex"); err == nil {
						x.rangeInv[l] = &Clause{Kind: "invariant", Label: "range_index_lower_bound", Props: fc.Props, Expr: e, Src: "0 - 1 <= rangeindex (structural)", Loop: l.Ordinal, Where: fc.Where}
					}
				}
			}
		}
	}
	if c := x.rangeInv[l]; c != nil {
		return append(append([]*Clause{}, cls...), c)
	}
	return cls
}

func (x *Exec) contractOfFrame(fr *Frame) *FuncContract {
	if fr.Fn == x.fn {
		return x.fc
	}
	return x.contractFor(fr.Fn)
}

func (x *Exec) contractFor(fn *ssa.Function) *FuncContract {
	n := x.P.FuncName(fn)
	if fc, ok := x.C.Funcs[n]; ok {
		return fc
	}
	if a := x.P.ClosureAlias(fn); a != "" {
		if fc, ok := x.C.Funcs[a]; ok {
			return fc
		}
	}
	return nil
}

func (x *Exec) loopFrame(st *State, fr *Frame, l *Loop, assume bool, phase string) {
	if fr.Fn != x.fn || x.fc == nil || !x.fc.HasMod {
		return
	}
	ws := x.Eff.LoopWrites(fr.Fn, l)
	env := x.envFor(st, x.entry, fr)
	for k, v := range x.entryParams {
		if _, ok := env.vars[k]; !ok {
			env.vars[k] = v
		}
	}
	names, goals := x.frameGoals(st, env, x.fc, ws.Classes)
	for _, hn := range names {
		if assume {
			st.assume(goals[hn])
		} else {
			x.oblige(st, fmt.Sprintf("loop%d/%s", l.Ordinal, phase), "frame_"+hn, x.fc.Props, goals[hn], x.fc.Where, "loop keeps the declared frame of "+hn)
		}
	}
}

// outerHead: the recorded head state of an enclosing loop of l in this function (for prev() in inner-loop invariants).
func (x *Exec) outerHead(st *State, fr *Frame, l *Loop) *State {
	var best *State
	for _, o := range x.P.Loops(fr.Fn) {
		if o == l || !o.Blocks[l.Header] {
			continue
		}
		if h := st.heads[fmt.Sprintf("%p:%d", fr.Fn, o.Ordinal)]; h != nil {
			best = h
		}
	}
	return best
}

func (x *Exec) checkLoopInv(st *State, fr *Frame, l *Loop, phase string) {
	x.loopFrame(st, fr, l, false, phase)
	env := x.envFor(st, x.entry, fr)
	env.prev = x.outerHead(st, fr, l)
	for i, cl := range x.loopClauses(fr, l) {
		label := cl.Label
		if label == "" {
			label = fmt.Sprint(i + 1)
		}
		if cc, ok := cl.Expr.(*CCall); ok && cc.Fn == "invs" && len(cc.Args) == 1 {
			a := x.eval(env, cc.Args[0])
			fc := x.contractOfFrame(fr)
			for _, inv := range x.C.Invs {
				if fc != nil && (fc.NoInv[inv.Name] || fc.NoInv["*"]) {
					continue
				}
				if a.Typ != nil && x.typeMatches(a.Typ, inv.Type) {
					if inv.History && !x.isEntryParam(a) {
						continue // the object did not exist at entry: no pre-state to compare with
					}
					g := x.evalBool(env.with(inv.Binder, a), inv.Expr)
					x.oblige(st, fmt.Sprintf("loop%d/%s", l.Ordinal, phase), "inv_"+inv.Name, inv.Props, g, inv.Where, inv.Src)
				}
			}
			continue
		}
		g, missing := x.evalTolerant(env, cl.Expr)
		x.oblige(st, fmt.Sprintf("loop%d/%s", l.Ordinal, phase), label, cl.Props, g, cl.Where, cl.Src)
		if len(missing) > 0 {
			// the part of the invariant that can no longer be stated is an undecided obligation of its own
			x.oblige(st, fmt.Sprintf("unstatable@loop%d/%s", l.Ordinal, phase), label, cl.Props, "false", cl.Where, strings.Join(missing, "; ")+": this part of the invariant is neither assumed nor proved")
		}
	}
}

func (x *Exec) hasLoopExtras(fr *Frame, l *Loop) bool {
	fc := x.contractOfFrame(fr)
	if fc == nil {
		return false
	}
	return len(fc.LoopAssume[l.Ordinal]) > 0 || len(fc.LoopStep[l.Ordinal]) > 0 || len(fc.LoopVar[l.Ordinal]) > 0
}

func (x *Exec) assumeLoopHyps(st *State, fr *Frame, l *Loop) {
	fc := x.contractOfFrame(fr)
	if fc == nil {
		return
	}
	env := x.envFor(st, x.entry, fr)
	for _, cl := range fc.LoopAssume[l.Ordinal] {
		st.assume(x.evalBool(env, cl.Expr))
	}
}

func (x *Exec) recordLoopHead(st *State, fr *Frame, l *Loop) {
	fc := x.contractOfFrame(fr)
	if fc == nil || (len(fc.LoopStep[l.Ordinal]) == 0 && len(fc.Asserts) == 0) {
		return
	}
	nh := map[string]*State{}
	for k, v := range st.heads {
		nh[k] = v
	}
	nh[fmt.Sprintf("%p:%d", fr.Fn, l.Ordinal)] = st.snapshot()
	st.heads = nh
}

func (x *Exec) checkLoopSteps(st *State, fr *Frame, l *Loop) { x.checkLoopStepsAt(st, fr, l, false) }

func (x *Exec) checkLoopStepsAt(st *State, fr *Frame, l *Loop, atBreak bool) {
	fc := x.contractOfFrame(fr)
	if fc == nil {
		return
	}
	head := st.heads[fmt.Sprintf("%p:%d", fr.Fn, l.Ordinal)]
	if head == nil {
		return
	}
	env := x.envFor(st, x.entry, fr)
	env.prev = head
	for i, cl := range fc.LoopStep[l.Ordinal] {
		label := cl.Label
		if label == "" {
			label = fmt.Sprint(i + 1)
		}
		if atBreak && cl.At != "break" {
			continue
		}
		x.oblige(st, fmt.Sprintf("loop%d/step", l.Ordinal), label, cl.Props, x.evalBool(env, cl.Expr), cl.Where, cl.Src)
	}
}

func (x *Exec) isEntryParam(a *Value) bool {
	for _, v := range x.entryParams {
		if v == a || (v != nil && v.T != "" && v.T == a.T) {
			return true
		}
	}
	return false
}

func (x *Exec) recordLoopVariant(st *State, fr *Frame, l *Loop) {
	fc := x.contractOfFrame(fr)
	if fc == nil || fc.LoopVar == nil {
		return
	}
	env := x.envFor(st, x.entry, fr)
	for i, cl := range fc.LoopVar[l.Ordinal] {
		v := x.eval(env, cl.Expr)
		st.heaps[fmt.Sprintf("!variant:%d:%d", l.Ordinal, i)] = x.term(v)
	}
}

func (x *Exec) checkLoopVariant(st *State, fr *Frame, l *Loop) {
	fc := x.contractOfFrame(fr)
	if fc == nil || fc.LoopVar == nil {
		return
	}
	env := x.envFor(st, x.entry, fr)
	for i, cl := range fc.LoopVar[l.Ordinal] {
		head := st.heaps[fmt.Sprintf("!variant:%d:%d", l.Ordinal, i)]
		now := x.term(x.eval(env, cl.Expr))
		var g string
		if cl.Kind == "increases" {
			g = app(">", now, head)
		} else {
			g = and(app("<", now, head), app(">=", head, "0"))
		}
		x.oblige(st, fmt.Sprintf("loop%d/progress", l.Ordinal), cl.Kind, cl.Props, g, cl.Where, cl.Kind+" "+cl.Src)
	}
}

// conjuncts splits a && b && c at the top level.
func conjuncts(e CExpr) []CExpr {
	if b, ok := e.(*CBin); ok && b.Op == "&&" {
		return append(conjuncts(b.X), conjuncts(b.Y)...)
	}
	return []CExpr{e}
}

// evalTolerant evaluates a loop invariant conjunct by conjunct. A conjunct that names an identifier
// which no longer exists in the function (a removed or renamed local that the rename table cannot
// place) is left out of the result and its name returned: the caller neither assumes nor proves it,
// and reports it, instead of giving up on the whole function.
func (x *Exec) evalTolerant(env *Env, e CExpr) (goal string, missing []string) {
	goal = "true"
	for _, c := range conjuncts(e) {
		var g string
		func() {
			defer func() {
				if r := recover(); r != nil {
					if tl, ok := r.(toolLimit); ok && strings.HasPrefix(tl.msg, "unknown identifier") {
						missing = append(missing, tl.msg)
						g = "true"
						return
					}
					panic(r)
				}
			}()
			g = x.evalBool(env, c)
		}()
		goal = and(goal, g)
	}
	return goal, missing
}

func (x *Exec) assumeLoopInv(st *State, fr *Frame, l *Loop) {
	x.loopFrame(st, fr, l, true, "")
	env := x.envFor(st, x.entry, fr)
	env.prev = x.outerHead(st, fr, l)
	for _, cl := range x.loopClauses(fr, l) {
		g, _ := x.evalTolerant(env, cl.Expr)
		st.assume(g)
	}
	// local slices whose offset the invariant fixes to 0: use the literal, so that
	// index terms stay free of symbolic offsets
	for c, v := range st.cells {
		if v == nil || v.T == "" || v.Typ == nil || strings.HasPrefix(v.T, "(mk_slice ") {
			continue
		}
		if _, ok := v.Typ.Underlying().(*types.Slice); !ok {
			continue
		}
		if st.facts[eq(app("s_off", v.T), "0")] {
			st.cells[c] = &Value{T: app("mk_slice", app("s_arr", v.T), "0", app("s_len", v.T), app("s_cap", v.T)), Typ: v.Typ}
		}
	}
}

// havocLoop forgets everything the loop body may modify.
func (x *Exec) havocLoop(st *State, fr *Frame, l *Loop) {
	ws := x.Eff.LoopWrites(fr.Fn, l)
	x.bumpNext(st)
	// cells of this frame
	for al := range ws.Allocs {
		p, ok := fr.Allocs[al]
		if !ok {
			continue // not yet allocated on this path: will be initialised inside
		}
		if p.Kind == PCell {
			old := st.cells[p.Cell]
			if old != nil && old.It != nil {
				continue
			}
			if old != nil && old.Fn != nil && assignedOnlyFn(al, old.Fn.Fn) {
				continue // function variables that only ever hold this one function
			}
			nv := x.fresh(p.Cell.Name, p.Cell.Typ)
			x.assumeTypeInv(st, nv)
			x.assumeAllocated(st, nv)
			st.cells[p.Cell] = nv
		} else if p.Kind == PObj {
			x.havocObject(st, p)
		}
	}
	if ws.FreeVarWrite {
		x.limit("loop in %s writes captured variables through a closure; not modelled", fr.Fn.Name())
	}
	for _, it := range ws.Iters {
		if v, ok := fr.Regs[it]; ok && v.It != nil && v.It.Pos != nil {
			nv := x.fresh("iterpos", types.Typ[types.Int])
			st.cells[v.It.Pos] = nv
			if v.It.Kind == "string" {
				st.assume(and(app("<=", "0", nv.T), app("<=", nv.T, app("slen", x.term(v.It.X)))))
			}
		}
	}
	x.havocClasses(st, ws.Classes)
}

func (x *Exec) havocObject(st *State, p *Pointer) {
	if stt, ok := structOf(p.Obj); ok {
		for i := 0; i < stt.NumFields(); i++ {
			hn, hs := x.fieldHeapName(p.Obj, i)
			h := x.heap(st, hn, hs)
			fv := x.freshSort("hv", x.Sorts.SortOf(stt.Field(i).Type()))
			x.setHeap(st, hn, hs, app("store", h, p.Ref, fv))
		}
		return
	}
	if at, ok := p.Obj.Underlying().(*types.Array); ok {
		hn, hs := x.elemHeapName(at.Elem())
		h := x.heap(st, hn, hs)
		fv := x.freshSort("hv", x.Sorts.SortOf(p.Obj))
		x.setHeap(st, hn, hs, app("store", h, p.Ref, fv))
	}
}

// havocToken names one havoc event; the allocation bound at that time is kept for birth axioms.
func (x *Exec) havocToken(st *State) string {
	x.havocCtr++
	tok := fmt.Sprintf("h%d", x.havocCtr)
	if x.lazyNext == nil {
		x.lazyNext = map[string]string{}
	}
	n := x.nextTerm(st)
	// the bound must be a plain constant to be usable in a registry axiom
	if strings.ContainsAny(n, "( ") {
		c := x.freshSort("nextat", "Int")
		st.assume(eq(c, n))
		n = c
	}
	x.lazyNext[tok] = n
	return tok
}

// havocClasses forgets the named location classes (see effects.go).
func (x *Exec) havocClasses(st *State, classes map[string]bool) {
	var names []string
	for c := range classes {
		names = append(names, c)
	}
	sort.Strings(names)
	for _, c := range names {
		switch {
		case strings.HasPrefix(c, "g."):
			g := c[2:]
			if gv, ok := x.C.Ghosts[g]; ok {
				st.ghost[g] = &Value{T: x.freshSort("g_"+g, x.ghostSort(gv)), Typ: x.ghostType(gv), Sort: x.ghostSort(gv)}
			}
		case strings.HasPrefix(c, "H_"), strings.HasPrefix(c, "E_"), strings.HasPrefix(c, "MD_"), strings.HasPrefix(c, "MV_"), strings.HasPrefix(c, "G_"):
			if _, ok := st.hsort[c]; ok {
				x.havocHeap(st, c)
			}
			// heaps never touched on this path need no havoc: their first use
			// will be declared as the entry constant... which would be wrong after a
			// havoc. Record the havoc so a later first use gets a fresh name.
			if _, ok := st.hsort[c]; !ok {
				st.heaps["!havoc:"+c] = x.havocToken(st)
			}
		}
	}
}

// ---------------------------------------------------------------------------
// register access

func (x *Exec) get(st *State, v ssa.Value) *Value {
	fr := st.top()
	switch v := v.(type) {
	case *ssa.Const:
		return x.constValue(v)
	case *ssa.Function:
		return &Value{Typ: v.Type(), Fn: &FuncVal{Fn: v}}
	case *ssa.Global:
		return x.globalPtr(st, v)
	case *ssa.Builtin:
		return &Value{Typ: v.Type()}
	}
	if r, ok := fr.Regs[v]; ok {
		return r
	}
	if fvv, ok := v.(*ssa.FreeVar); ok {
		for i, f := range fr.Fn.FreeVars {
			if f == fvv && i < len(fr.Bindings) {
				return fr.Bindings[i]
			}
		}
	}
	x.limit("use of undefined SSA value %s (%T) in %s", v.Name(), v, fr.Fn.Name())
	return nil
}

func (x *Exec) constValue(c *ssa.Const) *Value {
	t := c.Type()
	if c.Value == nil {
		// zero value / nil
		switch t.Underlying().(type) {
		case *types.Pointer, *types.Map, *types.Chan, *types.Signature:
			return &Value{T: "0", Typ: t, K: constant.MakeInt64(0)}
		case *types.Basic:
			if t.Underlying().(*types.Basic).Kind() == types.UntypedNil {
				return &Value{T: "0", Typ: t}
			}
		}
		return &Value{T: x.Sorts.Zero(t), Typ: t}
	}
	return &Value{Typ: t, K: c.Value}
}

func (x *Exec) globalPtr(st *State, g *ssa.Global) *Value {
	el := g.Type().(*types.Pointer).Elem()
	return &Value{Typ: g.Type(), Ptr: &Pointer{Kind: PGlobal, Glob: globalName(g), Typ: el}}
}

func globalName(g *ssa.Global) string {
	pk := ""
	if g.Pkg != nil {
		pk = g.Pkg.Pkg.Name()
	}
	return pk + "." + g.Name()
}

// ---------------------------------------------------------------------------
var snapRefRe = regexp.MustCompile(`\$([A-Za-z_][A-Za-z_0-9]*)`)

func isSnapshotName(fc *FuncContract, n string) bool {
	for _, sn := range fc.Snapshots {
		if sn.Label == n {
			return true
		}
	}
	return false
}

func snapshotRefs(fc *FuncContract, cl *Clause) int {
	n := 0
	for _, m := range snapRefRe.FindAllStringSubmatch(cl.Src, -1) {
		if isSnapshotName(fc, m[1]) {
			n++
		}
	}
	return n
}

// at return of the function under verification

func (x *Exec) atReturn(st *State, res []*Value, ins *ssa.Return) {
	x.returned++
	fr := st.top()
	fc := x.fc
	if fc == nil {
		return
	}
	if fc.NoReturn {
		// a function declared noreturn must not reach a return
		x.oblige(st, "post", "never_returns", fc.Props, "false", x.P.Pos(instrPos(ins)), "noreturn: no path reaches a return")
		return
	}
	// in postconditions parameter names denote the values at entry
	env := x.envFor(st, x.entry, fr)
	for k, v := range x.entryParams {
		env.vars[k] = v
	}
	env = env.withResults(res, x.fn)
	// ghost effects of this function's own contract are applied at its exit
	x.applyGhost(st, env, fc)
	env = x.envFor(st, x.entry, fr)
	for k, v := range x.entryParams {
		env.vars[k] = v
	}
	env = env.withResults(res, x.fn)
	x.batchCtr++
	x.batch = x.batchCtr
	defer func() { x.batch = 0 }()
	for k, v := range st.snaps {
		env.vars["$"+k] = v
	}
	for i, cl := range fc.Ensures {
		label := cl.Label
		if label == "" {
			label = fmt.Sprint(i + 1)
		}
		// a postcondition that mentions a snapshot speaks about the paths on which it was taken
		if snapshotRefs(fc, cl) > 0 {
			missing := false
			for _, m := range snapRefRe.FindAllStringSubmatch(cl.Src, -1) {
				if _, ok := st.snaps[m[1]]; !ok && isSnapshotName(fc, m[1]) {
					missing = true
				}
			}
			if missing {
				continue
			}
			x.fired[cl] = true
		}
		g := x.evalBool(env, cl.Expr)
		x.oblige(st, "post", label, cl.Props, g, cl.Where, cl.Src)
		x.obls[len(x.obls)-1].Clause = cl
	}
	for _, a := range fc.Asserts {
		if a.At == "" {
			g := x.evalBool(env, a.Expr)
			x.oblige(st, "assert", a.Label, a.Props, g, a.Where, a.Src)
		}
	}
	for _, bi := range x.invariantsFor(x.fn, fc) {
		g := x.evalBool(env.with(bi.Binder, bi.val), bi.inv.Expr)
		x.oblige(st, "inv", bi.inv.Name, bi.inv.Props, g, bi.inv.Where, bi.inv.Src)
	}
	if x.fn.Name() == "init" || strings.HasPrefix(x.fn.Name(), "init#") {
		for _, gi := range x.C.GlobalInvs {
			// a fact about globals is established by the init function that mentions them directly
			// (the package initialiser for facts about globals no init function mentions)
			if !x.establishesGlobalFact(x.fn, gi) {
				continue
			}
			g := x.evalBool(env, gi.Expr)
			x.oblige(st, "global", gi.Label, gi.Props, g, gi.Where, gi.Src)
		}
	}
	x.frameObligations(st, env, fc)
	// vacuity canary: this return must be reachable under the assumptions
	o := &Obligation{Name: x.fname + "/vacuity", Func: x.fname, Kind: "vacuity", Props: fc.Props, Goal: "false", Where: x.P.Pos(instrPos(ins)), Src: "reachability of return", ExpectSat: true, Mode: x.Mode}
	o.Items = st.items[:len(st.items):len(st.items)]
	x.obls = append(x.obls, o)
}

func (x *Exec) assumeGlobalInvs(st *State) {
	if x.fn != nil && (x.fn.Name() == "init" || strings.HasPrefix(x.fn.Name(), "init#")) {
		return
	}
	if len(x.C.GlobalInvs) == 0 {
		return
	}
	env := &Env{x: x, st: st, old: st, vars: map[string]*Value{}}
	var reads map[string]bool
	if x.Eff != nil && x.fn != nil {
		reads = map[string]bool{}
		for k := range x.Eff.GlobalsRead(x.fn) {
			reads[k] = true
		}
		if x.fc != nil {
			for _, cl := range append(append([]*Clause{}, x.fc.Requires...), x.fc.Ensures...) {
				for _, id := range identsOf(cl.Expr) {
					reads[id] = true
				}
			}
		}
	}
	for _, gi := range x.C.GlobalInvs {
		// only facts about globals this function (or its callees) can read
		if reads != nil {
			rel := false
			for _, id := range identsOf(gi.Expr) {
				if reads[id] && x.isGlobalVarName(id) {
					rel = true
				}
			}
			if !rel {
				continue
			}
		}
		st.assume(x.evalBool(env, gi.Expr))
	}
}

func mathFloat64bits(f float64) uint64 { return float64bits(f) }

var _ = token.NoPos

// frameObligations: semantic check of a declared `modifies` clause. For every
// heap changed on this path, everything outside the declared items must be
// unchanged for the objects / arrays / maps that existed at entry.
func (x *Exec) frameObligations(st *State, env *Env, fc *FuncContract) {
	names, goals := x.frameGoals(st, env, fc, nil)
	for _, hn := range names {
		// every caller, whatever property it is verified for, relies on the declared frame: "*"
		x.oblige(st, "frame", hn, append(append([]string{}, fc.Props...), "*"), goals[hn], fc.Where, "only the declared locations of "+hn+" are modified")
	}
}

// frameGoals builds, per heap, the statement "outside the declared modifies items
// nothing that existed at entry has changed". If only != nil, goals are built for
// exactly those heaps (used for loops), else for every heap changed on this path.
func (x *Exec) frameGoals(st *State, env *Env, fc *FuncContract, only map[string]bool) ([]string, map[string]string) {
	goals := map[string]string{}
	if fc == nil || !fc.HasMod {
		return nil, goals
	}
	entry := x.entry
	oldEnv := *env
	oldEnv.inOld = true
	whole := map[string]bool{}       // heaps declared at class level
	objs := map[string][]string{}     // field heap -> allowed object refs (entry values)
	keys := map[string][]string{}     // element/map heap -> allowed array/map refs (entry values)
	ranges := map[string][][3]string{} // element heap -> (arr, lo, hi) allowed index ranges
	addContents := func(t types.Type, v string) {
		switch u := t.Underlying().(type) {
		case *types.Slice:
			hn, _ := x.elemHeapName(u.Elem())
			keys[hn] = append(keys[hn], app("s_arr", v))
		case *types.Map:
			dn, vn, _, _ := x.mapHeapNames(u)
			keys[dn] = append(keys[dn], v)
			keys[vn] = append(keys[vn], v)
		}
	}
	for _, m := range fc.Modifies {
		switch e := m.Expr.(type) {
		case *CSel:
			if id, ok := e.X.(*CIdent); ok {
				if id.Name == "g" || id.Name == "ext" {
					continue
				}
				if _, bound := env.vars[id.Name]; !bound && x.lookupLocal(env, id.Name) == nil {
					if tn := x.lookupTypeName(env, id.Name); tn != nil {
						if stt, ok := structOf(tn); ok {
							if i := fieldIndex(stt, e.Name); i >= 0 {
								hn, _ := x.fieldHeapName(tn, i)
								whole[hn] = true
								switch u := stt.Field(i).Type().Underlying().(type) {
								case *types.Slice:
									en, _ := x.elemHeapName(u.Elem())
									whole[en] = true
								case *types.Map:
									dn, vn, _, _ := x.mapHeapNames(u)
									whole[dn], whole[vn] = true, true
								}
							}
						}
						continue
					}
				}
			}
			base := x.eval(&oldEnv, e.X)
			bt := base.Typ
			if pt, ok := bt.Underlying().(*types.Pointer); ok {
				bt = pt.Elem()
			}
			stt, ok := structOf(bt)
			if !ok {
				continue
			}
			if i := fieldIndex(stt, e.Name); i >= 0 {
				hn, hs := x.fieldHeapName(bt, i)
				objs[hn] = append(objs[hn], x.refTerm(base))
				addContents(stt.Field(i).Type(), app("select", x.heapIn(entry, hn, hs), x.refTerm(base)))
			}
		case *CIndex, *CSlice:
			var sx, lo, hi CExpr
			switch ee := e.(type) {
			case *CIndex:
				sx = ee.X
				if id, ok := ee.I.(*CIdent); !ok || id.Name != "all" {
					lo, hi = ee.I, &CBin{"+", ee.I, &CLit{"int", "1"}}
				}
			case *CSlice:
				sx, lo, hi = ee.X, ee.Lo, ee.Hi
			}
			sv := x.eval(&oldEnv, sx)
			sl, ok := sv.Typ.Underlying().(*types.Slice)
			if !ok {
				continue
			}
			hn, _ := x.elemHeapName(sl.Elem())
			arr, off, ln, _ := x.sliceParts(x.term(sv))
			lot, hit := "0", ln
			if lo != nil {
				lot = x.term(x.eval(&oldEnv, lo))
			}
			if hi != nil {
				hit = x.term(x.eval(&oldEnv, hi))
			}
			ranges[hn] = append(ranges[hn], [3]string{arr, addT(off, lot), addT(off, hit)})
		case *CIdent:
			if _, bound := env.vars[e.Name]; bound || x.lookupLocal(env, e.Name) != nil {
				// a map-typed variable: the entries of that map
				mv := x.eval(&oldEnv, e)
				if mv.Typ != nil {
					if _, isMap := mv.Typ.Underlying().(*types.Map); isMap {
						addContents(mv.Typ, x.term(mv))
						continue
					}
				}
			}
			whole[e.Name] = true
		}
	}
	var names []string
	for n := range st.heaps {
		if strings.HasPrefix(n, "!") {
			continue
		}
		if only != nil && !only[n] {
			continue
		}
		names = append(names, n)
	}
	sort.Strings(names)
	var outNames []string
	for _, hn := range names {
		cur := st.heaps[hn]
		if cur == hn || whole[hn] {
			continue // unchanged (still the entry constant) or declared at class level
		}
		sortS := st.hsort[hn]
		ent := x.heapIn(entry, hn, sortS)
		var goal string
		switch {
		case strings.HasPrefix(hn, "H_"):
			var ex []string
			for _, o := range objs[hn] {
				ex = append(ex, not(eq("r", o)))
			}
			goal = fmt.Sprintf("(forall ((r Int)) (=> %s (= (select %s r) (select %s r))))", and(append([]string{app("<", "r", x.alloc0())}, ex...)...), cur, ent)
		case strings.HasPrefix(hn, "E_"), strings.HasPrefix(hn, "MD_"), strings.HasPrefix(hn, "MV_"):
			var ex []string
			for _, k := range keys[hn] {
				ex = append(ex, not(eq("a", k)))
			}
			if rs := ranges[hn]; len(rs) > 0 {
				// arrays with declared index ranges: unchanged outside the ranges
				var conj []string
				for _, r := range rs {
					ex = append(ex, not(eq("a", r[0])))
				}
				for _, r := range rs {
					var inside []string
					for _, r2 := range rs {
						inside = append(inside, and(eq(r[0], r2[0]), app("<=", r2[1], "i"), app("<", "i", r2[2])))
					}
					conj = append(conj, fmt.Sprintf("(forall ((i Int)) (=> (not %s) (= (select (select %s %s) i) (select (select %s %s) i))))", or(inside...), cur, r[0], ent, r[0]))
				}
				goal = and(append(conj, fmt.Sprintf("(forall ((a Int)) (=> %s (= (select %s a) (select %s a))))", and(append([]string{app("<", "a", x.alloc0())}, ex...)...), cur, ent))...)
			} else {
				goal = fmt.Sprintf("(forall ((a Int)) (=> %s (= (select %s a) (select %s a))))", and(append([]string{app("<", "a", x.alloc0())}, ex...)...), cur, ent)
			}
		case strings.HasPrefix(hn, "G_"):
			goal = eq(cur, ent)
		default:
			continue
		}
		goals[hn] = goal
		outNames = append(outNames, hn)
	}
	return outNames, goals
}

// identsOf lists the identifiers occurring in a contract expression.
func identsOf(e CExpr) []string {
	var out []string
	var walk func(e CExpr)
	walk = func(e CExpr) {
		switch v := e.(type) {
		case *CIdent:
			out = append(out, v.Name)
		case *CBin:
			walk(v.X)
			walk(v.Y)
		case *CUn:
			walk(v.X)
		case *CSel:
			walk(v.X)
		case *CIndex:
			walk(v.X)
			walk(v.I)
		case *CSlice:
			walk(v.X)
			if v.Lo != nil {
				walk(v.Lo)
			}
			if v.Hi != nil {
				walk(v.Hi)
			}
		case *CCall:
			for _, a := range v.Args {
				walk(a)
			}
		case *CQuant:
			walk(v.Body)
		case *CCond:
			walk(v.C)
			walk(v.A)
			walk(v.B)
		case *CTypeAssert:
			walk(v.X)
		}
	}
	walk(e)
	return out
}

// assignedOnlyFn: every store to the local stores (a closure of) fn.
func assignedOnlyFn(al *ssa.Alloc, fn *ssa.Function) bool {
	refs := al.Referrers()
	if refs == nil {
		return false
	}
	for _, r := range *refs {
		sto, ok := r.(*ssa.Store)
		if !ok || sto.Addr != ssa.Value(al) {
			continue
		}
		switch v := sto.Val.(type) {
		case *ssa.MakeClosure:
			if v.Fn != ssa.Value(fn) {
				return false
			}
		case *ssa.Function:
			if v != fn {
				return false
			}
		default:
			return false
		}
	}
	return true
}

// directGlobals: names of the package-level variables an init function mentions in its own body.
func directGlobals(f *ssa.Function) map[string]bool {
	m := map[string]bool{}
	for _, b := range f.Blocks {
		for _, ins := range b.Instrs {
			var ops []*ssa.Value
			for _, op := range ins.Operands(ops) {
				if op != nil && *op != nil {
					if gl, ok := (*op).(*ssa.Global); ok {
						m[gl.Name()] = true
					}
				}
			}
		}
	}
	return m
}

func (x *Exec) establishesGlobalFact(fn *ssa.Function, gi *GlobalInv) bool {
	ids := identsOf(gi.Expr)
	mine := directGlobals(fn)
	for _, id := range ids {
		if mine[id] {
			return true
		}
	}
	if fn.Name() != "init" {
		return false
	}
	// nobody mentions them: the package initialiser answers for the zero values
	for _, f := range x.P.All {
		if f.Pkg != fn.Pkg || f == fn || !(f.Name() == "init" || strings.HasPrefix(f.Name(), "init#")) {
			continue
		}
		other := directGlobals(f)
		for _, id := range ids {
			if other[id] {
				return false
			}
		}
	}
	return true
}

func capturedParam(fn *ssa.Function, fv *ssa.FreeVar) bool {
	for p := fn.Parent(); p != nil; p = p.Parent() {
		for _, q := range p.Params {
			if q.Name() == fv.Name() {
				return true
			}
		}
	}
	return false
}

func (x *Exec) isGlobalVarName(id string) bool {
	for _, pk := range x.P.TPkgs {
		if o := pk.Scope().Lookup(id); o != nil {
			if _, ok := o.(*types.Var); ok {
				return true
			}
		}
	}
	return false
}
